"""Leaf kernels re-checked by CrossHair (independent engine; corroboration only, never decides a property).
Run:  .venv/bin/python -m crosshair check --report_all --per_condition_timeout 30 xh/kernels.py"""
from typing import Dict, Tuple

from synkit.CRN.Petri.net import PetriNet
from synkit.IO.nx_to_gml import NXToGML
from synkit.IO.gml_to_nx import GMLToNX
from synkit.Graph.ITS.its_decompose import _should_include_edge


def _fire_is_marking_minus_pre_plus_post(ma: int, mb: int, pa: int, pb: int, qa: int, qb: int) -> bool:
    """
    pre: 0 <= ma <= 50 and 0 <= mb <= 50 and 0 <= pa <= 50 and 0 <= pb <= 50 and 0 <= qa <= 50 and 0 <= qb <= 50
    post: _
    """
    net = PetriNet()
    net.add_transition("t", {"A": pa, "B": pb}, {"A": qa, "B": qb})
    m = {"A": ma, "B": mb}
    en = net.enabled(m, "t")
    new = net.fire(m, "t")
    return en == (ma >= pa and mb >= pb) and new["A"] == ma - pa + qa and new["B"] == mb - pb + qb and m == {"A": ma, "B": mb}


def _charge_label_round_trip(charge: int) -> bool:
    """
    pre: -9 <= charge <= 9
    post: _
    """
    label = "C" + NXToGML._charge_to_string(charge)
    el, c = GMLToNX._extract_element_and_charge(None, label)
    return el == "C" and c == charge


def _edge_in_centre_iff_order_changes(og2: int, oh2: int) -> bool:
    """
    pre: 0 <= og2 <= 6 and 0 <= oh2 <= 6
    post: _
    """
    std = og2 - oh2  # twice the order difference, kept integral: CrossHair does not decide float arithmetic
    return _should_include_edge(std, False, False) == (og2 != oh2)
