"""C02 — the reaction centre is exactly the set of changed bonds; the radius-k context grows monotonically."""
from __future__ import annotations

import networkx as nx

from symx import AND, OR, NOT, EQ, IFF, term_bool
from vf.graphs import pairs, all_shapes, graph_eq, relabel
from harness.c01 import build_reaction, ELS, ORD

PROPERTY = "C02"
ALPHABET = ELS + ["", "*"]
RC_KEYS = ["element", "charge", "typesGH", "atom_map"]

META = dict(
    bounds=dict(
        quick="(a) ITS built by ITSConstruction from every reactant/product pair on n<=3 shared atoms (orders per side "
              "symbolic in {0,1,1.5,2,3}, element in {C,H,N,O}, hcount 0..2, charge -1..1), with a solver-chosen "
              "renumbering; (b) synthetic ITS graphs on all connected and disconnected shapes with 4 nodes plus the paths "
              "P5, P6, a 5-ring, and 4-ring/triangle/5-ring with pendant atoms, order pairs symbolic, radii 0..3; a stream of two short-lived ITS graphs of equal size followed by an in-place edit (4-chain, 4-ring); all-carbon 3-/4-chains and the 4-ring whose typesGH carry real neighbour-element lists",
        thorough="(a) n=4; (b) all shapes with 5 nodes, P7, 6-ring, radii 0..3",
    ),
    outside=["rsmi_to_its(core=True) front end (RDKit)", "get_rc(disconnected=True / keep_mtg=True) variants",
             "graphs beyond the bounds"],
    stubs=["context_stream harness: module attribute `id` of its_decompose / radius_expand replaced by vf/idstub.py (addresses recycled as eagerly as CPython's contract allows)"],
    assumptions=["synthetic ITS graphs carry order pairs with at least one positive side and a consistent standard_order"],
    rule="one evaluation = one symbolic path (which bonds change / which atoms are hydrogen); non-trivial = the centre is "
         "non-empty and smaller than the ITS",
)
WALL = dict(quick=150, thorough=1500)
MIN_PATHS = dict(quick=300, thorough=3000)


def rc_oracle_bad(its, rc, og_oh):
    """formula: rc differs from {changed bonds + H-H bonds} with the ITS labels."""
    bad = []
    for u, v in its.edges:
        og, oh = og_oh(u, v)
        hh = AND(EQ(its.nodes[u].get("element"), "H"), EQ(its.nodes[v].get("element"), "H"))
        want = OR(NOT(EQ(og, oh)), hh)
        bad.append(NOT(want) if rc.has_edge(u, v) else want)
    for u, v in rc.edges:
        if not its.has_edge(u, v):
            bad.append(True)
            continue
        bad.append(NOT(EQ(rc[u][v].get("order"), its[u][v].get("order"))))
        bad.append(NOT(EQ(rc[u][v].get("standard_order"), its[u][v].get("standard_order"))))
    ends = {x for e in rc.edges for x in e}
    bad.append(set(rc.nodes) != ends)
    for v in rc.nodes:
        if v not in its:
            bad.append(True)
            continue
        for k in RC_KEYS:
            bad.append(NOT(EQ(rc.nodes[v].get(k), its.nodes[v].get(k))))
    return OR(bad)


def h_rc_of_reaction(E, n, relab):
    from synkit.Graph.ITS.its_construction import ITSConstruction
    from synkit.Graph.ITS.its_decompose import get_rc

    nodes, lab, o, pres, G, H = build_reaction(E, n, None, False, hmax=2)
    its = ITSConstruction.ITSGraph(G, H)

    def og_oh(u, v):
        p = (min(u, v), max(u, v))
        return (o["G", p] if pres["G", p] else 0), (o["H", p] if pres["H", p] else 0)

    rc = get_rc(its)
    E.check(rc_oracle_bad(its, rc, og_oh), "centre-is-the-changed-bonds")
    rc2 = get_rc(rc)
    E.check(NOT(graph_eq(rc, rc2, RC_KEYS, ["order", "standard_order"])), "centre-of-centre-is-centre")
    if relab:
        # renumber the atom maps: a solver-chosen bijection onto ids 11..; insertion order reversed
        pi = [int(x) for x in E.perm("pi", n)]
        mp = {v: 11 + pi[v - 1] for v in nodes}
        its_p = relabel(its, mp, order=list(reversed(nodes)))
        for v in nodes:
            its_p.nodes[mp[v]]["atom_map"] = mp[v]
        rc_p = get_rc(its_p)
        want = relabel(rc, mp)
        for v in want.nodes:
            want.nodes[v]["atom_map"] = v
        E.check(NOT(graph_eq(rc_p, want, RC_KEYS, ["order", "standard_order"])), "centre-is-equivariant-under-renumbering")
    E.note(nontrivial=0 < rc.number_of_nodes() < n or rc.number_of_edges() > 0)
    E.observe((sorted(tuple(sorted(e)) for e in rc.edges), sorted(rc.nodes)))


def synthetic_its(E, n, edges, hmax=1, nbrs=False):
    """nbrs=True: all-carbon ITS whose typesGH carry real neighbour-element lists per side (as graphs parsed from SMILES
    do) instead of the placeholder ['', '']"""
    its = nx.Graph()
    oo = {}
    for (u, v) in edges:
        og = E.choice("oG%d_%d" % (u, v), ORD)
        oh = E.choice("oH%d_%d" % (u, v), ORD)
        E.assume(OR(term_bool(og > 0), term_bool(oh > 0)))
        oo[u, v] = oo[v, u] = (og, oh)
    for v in range(1, n + 1):
        el = "C" if nbrs else E.choice("el%d" % v, ["C", "H", "O"])
        hg, hh = E.int("hG%d" % v, 0, hmax), E.int("hH%d" % v, 0, hmax)
        cg, ch = E.int("cG%d" % v, 0, 1), E.int("cH%d" % v, 0, 1)
        if nbrs:
            ng = ["C" for (a, b) in edges if v in (a, b) and bool(oo[a, b][0] > 0)]
            nh = ["C" for (a, b) in edges if v in (a, b) and bool(oo[a, b][1] > 0)]
        else:
            ng, nh = ["", ""], ["", ""]
        its.add_node(v, element=el, aromatic=False, hcount=hg, charge=cg, atom_map=v, neighbors=list(ng),
                     typesGH=((el, False, hg, cg, list(ng)), (el, False, hh, ch, list(nh))))
    for (u, v) in edges:
        og, oh = oo[u, v]
        its.add_edge(u, v, order=(og, oh), standard_order=og - oh)
    return its, oo


def h_context(E, n, edges, kmax=3, nbrs=False):
    from synkit.Graph.ITS.its_decompose import get_rc
    from synkit.Graph.Context.radius_expand import RadiusExpand

    edges = [tuple(e) for e in edges]
    its, oo = synthetic_its(E, n, edges, nbrs=nbrs)
    snap_nodes = {v: dict(d) for v, d in its.nodes(data=True)}
    rc = get_rc(its)
    E.check(rc_oracle_bad(its, rc, lambda u, v: oo[u, v]), "centre-is-the-changed-bonds")
    prev = rc
    bad_nest, bad_ball, bad_induced = [], [], []
    dist = dict(nx.all_pairs_shortest_path_length(its))
    k0 = RadiusExpand.extract_k(its, 0)
    E.check(NOT(graph_eq(k0, rc, RC_KEYS, ["order", "standard_order"])), "context-0-is-the-centre")
    for k in range(1, kmax + 1):
        K = RadiusExpand.extract_k(its, k)
        ball = {v for v in its.nodes if any(dist[c].get(v, 10**9) <= k for c in rc.nodes)}
        bad_ball.append(set(K.nodes) != ball)
        ind = its.subgraph(ball)
        bad_induced.append(NOT(graph_eq(K, ind, ["element", "charge", "typesGH", "atom_map", "hcount", "aromatic"],
                                        ["order", "standard_order"])))
        bad_nest.append(not (set(prev.nodes) <= set(K.nodes) <= set(its.nodes)))
        bad_nest.append(not ({frozenset(e) for e in prev.edges} <= {frozenset(e) for e in K.edges}
                             <= {frozenset(e) for e in its.edges}))
        prev = K
    E.check(OR(bad_ball), "context-k-is-the-radius-k-ball")
    E.check(OR(bad_induced), "context-k-is-the-induced-subgraph-with-its-labels")
    E.check(OR(bad_nest), "contexts-are-nested")
    E.check(OR([NOT(EQ(its.nodes[v].get(k2), snap_nodes[v].get(k2))) for v in snap_nodes for k2 in snap_nodes[v]]),
            "input-its-unchanged")
    E.note(nontrivial=0 < rc.number_of_nodes() < n)
    E.observe((sorted(rc.nodes), sorted(prev.nodes)))


def h_context_stream(E, n, edges):
    """a stream of short-lived ITS graphs (as in `for r in corpus: extract_k(rsmi_to_its(r), k)`): the first one is
    analysed and dropped, the second one - same size, other bonds change - must be analysed on its own; then it is edited in
    place and analysed again.  id() inside the analysed modules recycles addresses as eagerly as CPython allows."""
    import gc

    import importlib

    from vf.idstub import recycled_ids

    dec = importlib.import_module("synkit.Graph.ITS.its_decompose")
    rex = importlib.import_module("synkit.Graph.Context.radius_expand")

    edges = [tuple(e) for e in edges]
    with recycled_ids(dec, rex):
        first, _ = synthetic_its(E, n, edges, hmax=0)
        for k in (0, 1):
            rex.RadiusExpand.extract_k(first, k)
        del first
        gc.collect()
        # the second graph: same atoms and bonds, its own order pairs
        its = nx.Graph()
        oo = {}
        for v in range(1, n + 1):
            its.add_node(v, element="C", aromatic=False, hcount=0, charge=0, atom_map=v, neighbors=["", ""],
                         typesGH=(("C", False, 0, 0, ["", ""]), ("C", False, 0, 0, ["", ""])))
        for (u, v) in edges:
            og = E.choice("2oG%d_%d" % (u, v), [1, 2])
            oh = E.choice("2oH%d_%d" % (u, v), [1, 2])
            oo[u, v] = oo[v, u] = (og, oh)
            its.add_edge(u, v, order=(og, oh), standard_order=og - oh)
        dist = dict(nx.all_pairs_shortest_path_length(its))

        def judge(tag):
            rc = dec.get_rc(its)
            E.check(rc_oracle_bad(its, rc, lambda a, b: oo[a, b]), "centre-is-the-changed-bonds", dict(stage=tag))
            bad = []
            for k in (0, 1, 2):
                K = rex.RadiusExpand.extract_k(its, k)
                ball = {v for v in its.nodes if any(dist[c].get(v, 10**9) <= k for c in rc.nodes)}
                bad.append(set(K.nodes) != ball)
            E.check(OR(bad), "context-k-is-the-radius-k-ball", dict(stage=tag, centre=sorted(rc.nodes)))
            return rc

        rc = judge("second graph of the stream")
        # in-place edit: the first bond flips between changed and unchanged, sizes stay the same
        (u, v) = edges[0]
        og, oh = oo[u, v]
        new = (og, 3 - oh)
        oo[u, v] = oo[v, u] = new
        its[u][v]["order"] = new
        its[u][v]["standard_order"] = new[0] - new[1]
        judge("after an in-place edit")
    E.note(nontrivial=rc.number_of_nodes() > 0)
    E.observe(sorted(rc.nodes))


HARNESSES = {"rc_of_reaction": h_rc_of_reaction, "context": h_context, "context_stream": h_context_stream}


def shards(tier, seed):
    sh = [dict(h="rc_of_reaction", params=dict(n=2, relab=True)), dict(h="rc_of_reaction", params=dict(n=3, relab=True))]
    fams = []
    if tier == "quick":
        for es in all_shapes(4):
            if es:
                fams.append((4, es))
        fams.append((5, [[1, 2], [2, 3], [3, 4], [4, 5]]))
        fams.append((6, [[1, 2], [2, 3], [3, 4], [4, 5], [5, 6]]))
        fams.append((5, [[1, 2], [2, 3], [3, 4], [4, 5], [1, 5]]))
        # rings with pendant atoms: a ball that has to be reached around a ring
        fams.append((5, [[1, 2], [2, 3], [3, 4], [1, 4], [4, 5]]))
        fams.append((5, [[1, 2], [2, 3], [1, 3], [3, 4], [2, 5]]))
        fams.append((6, [[1, 2], [2, 3], [3, 4], [4, 5], [1, 5], [5, 6]]))
    else:
        sh.append(dict(h="rc_of_reaction", params=dict(n=4, relab=False)))
        fams += [(4, es) for es in all_shapes(4) if es] + [(5, es) for es in all_shapes(5, max_edges=6) if es]
        fams.append((6, [[1, 2], [2, 3], [3, 4], [4, 5], [5, 6]]))
        fams.append((7, [[1, 2], [2, 3], [3, 4], [4, 5], [5, 6], [6, 7]]))
        fams.append((6, [[1, 2], [2, 3], [3, 4], [4, 5], [5, 6], [1, 6]]))
        fams.append((6, [[1, 2], [2, 3], [3, 4], [4, 5], [1, 5], [5, 6]]))
        fams.append((7, [[1, 2], [2, 3], [3, 4], [4, 5], [1, 5], [5, 6], [3, 7]]))
    for n, es in fams:
        sh.append(dict(h="context", params=dict(n=n, edges=es)))
    # all-carbon chains / ring whose typesGH carry real neighbour-element lists (as parsed reactions have them)
    for n, es in ((4, [[1, 2], [2, 3], [3, 4]]), (3, [[1, 2], [2, 3]]), (4, [[1, 2], [2, 3], [3, 4], [1, 4]])):
        sh.append(dict(h="context", params=dict(n=n, edges=es, nbrs=True)))
    sh.append(dict(h="context_stream", params=dict(n=4, edges=[[1, 2], [2, 3], [3, 4]])))
    sh.append(dict(h="context_stream", params=dict(n=4, edges=[[1, 2], [2, 3], [3, 4], [1, 4]])))
    return sh
