"""C15 — the reaction-network store stays consistent under every history of edits.

Every operation code and operand of a bounded history is a symbolic variable; the real CRNHyperGraph executes
the history; after every step the representation invariant and the frame conditions are checked against a
reference model that is built from the same symbols.  Species labels, ids and coefficients are hashed / cast
by the store, so they are realised on each path: the solver enumerates the finite history space (said so in
the evidence), it does not sample it.
"""
from __future__ import annotations

import copy

from symx import EQ

PROPERTY = "C15"
SPECIES = ["A", "B", "C"]
RULES = ["r", "q"]
IDS = ["<gen>", "r_1", "r_2", "q_1", "x"]
ALPHABET = sorted(set(SPECIES + RULES + IDS + ["add", "rm", "rmsp", "merge", "copy", "mol", "molmap", "keep", "cpedit"]))

# stoichiometry pool: (reactants, products)
POOL = [
    ({"A": 1}, {"B": 1}),
    ({"B": 1}, {"A": 1}),
    ({"A": 1, "B": 1}, {"C": 1}),
    ({"A": 2}, {"B": 1}),
    ({"A": 1}, {"A": 1, "B": 1}),
    ({}, {"A": 1}),
    ({"C": 1}, {}),
    ({"C": 1}, {"A": 1, "B": 2}),
    ({"B": 1}, {"B": 1}),
]

CP_POOL = [({"A": 1, "B": 2}, {"C": 1}), ({"C": 1}, {"A": 1}), ({"A": 1}, {"A": 1, "B": 1}), ({"B": 1}, {})]

META = dict(
    bounds=dict(
        quick="histories of <= 3 operations (ids family) / <= 2 (index family) / <= 3 (copy family; thorough 4: 4 stoichiometries, "
              "copy, edit-a-copy, remove species/reaction) / a chain of 8..11 reactions merged under its own ids followed by <= 2 (3) operations over 3 species, 2 rules, explicit ids "
              "{r_1,r_2,q_1,x} or generated, 9 stoichiometries incl. catalyst, source, sink, trivial, coefficient 2",
        thorough="histories of <= 4 operations in both families",
    ),
    outside=["longer histories", "more than 3 species / 2 rules", "parse_rxns string front end (C16)",
             "neighbors()/paths() traversal"],
    stubs=[],
    assumptions=["species labels, ids and coefficients are realised by dict hashing / int(): the solver enumerates the "
                 "finite history space path by path",
                 "operations that raise a documented error (duplicate explicit id, unknown id/species, strict mol map) "
                 "must leave the store unchanged"],
    rule="one evaluation = one symbolic path = one concrete history class; non-trivial = at least one operation "
         "succeeded after the first reaction was stored",
)
WALL = dict(quick=150, thorough=1500)
MIN_PATHS = dict(quick=500, thorough=5000)


class Ref:
    """Reference model of the store."""

    def __init__(self):
        self.edges = {}  # id -> (rule, reactants, products)
        self.kept = set()
        self.mol = {}

    def species(self):
        s = set()
        for _, r, p in self.edges.values():
            s |= set(r) | set(p)
        return s

    def clone(self):
        return copy.deepcopy(self)


def invariant(h, ref):
    """Returns the name of the first violated clause, or None."""
    import numpy as np

    # ids and frame: every stored reaction is there under its own id with its own rule and stoichiometry
    if set(h.edges) != set(ref.edges):
        return "reactions-present", dict(store=sorted(h.edges), expected=sorted(ref.edges))
    for eid, (rule, r, p) in ref.edges.items():
        e = h.edges[eid]
        if e.id != eid:
            return "edge-id-field", dict(key=eid, field=e.id)
        if e.rule != rule or e.reactants.to_dict() != r or e.products.to_dict() != p:
            return "own-stoichiometry", dict(id=eid, store=(e.rule, e.reactants.to_dict(), e.products.to_dict()),
                                             expected=(rule, r, p))
    occ = ref.species()
    if not (occ <= set(h.species)):
        return "species-missing", dict(species=sorted(h.species), occurring=sorted(occ))
    if not (set(h.species) <= occ | ref.kept):
        return "species-extra", dict(species=sorted(h.species), occurring=sorted(occ), kept=sorted(ref.kept))
    for s in set(h.species) | set(h.species_to_in_edges) | set(h.species_to_out_edges):
        ins = {eid for eid, (_, r, p) in ref.edges.items() if s in p}
        outs = {eid for eid, (_, r, p) in ref.edges.items() if s in r}
        if set(h.species_to_in_edges.get(s, ())) != ins:
            return "in-index", dict(species=s, store=sorted(h.species_to_in_edges.get(s, ())), expected=sorted(ins))
        if set(h.species_to_out_edges.get(s, ())) != outs:
            return "out-index", dict(species=s, store=sorted(h.species_to_out_edges.get(s, ())), expected=sorted(outs))
        if s not in h.species and (s in h.species_to_in_edges or s in h.species_to_out_edges):
            return "index-for-absent-species", dict(species=s)
    if not set(h.species_to_mol) <= set(h.species):
        return "mol-for-absent-species", dict(mol=sorted(h.species_to_mol), species=sorted(h.species))
    want_mol = {s: m for s, m in ref.mol.items() if s in h.species}
    if dict(h.species_to_mol) != want_mol:
        return "mol-labels", dict(store=dict(h.species_to_mol), expected=want_mol)
    # incidence matrix, sparse and dense
    so, eo, mp = h.incidence_matrix(sparse=True)
    so2, eo2, mat = h.incidence_matrix(sparse=False)
    if so != sorted(h.species) or eo != sorted(h.edges) or so2 != so or eo2 != eo:
        return "incidence-orders", dict(so=so, eo=eo)
    for i, s in enumerate(so):
        for j, eid in enumerate(eo):
            _, r, p = ref.edges[eid]
            want = p.get(s, 0) - r.get(s, 0)
            occurs = s in r or s in p
            if int(mat[i, j]) != want:
                return "incidence-dense", dict(species=s, id=eid, got=int(mat[i, j]), want=want)
            if mp.get((s, eid), 0) != want or (((s, eid) in mp) != occurs):
                return "incidence-sparse", dict(species=s, id=eid, got=mp.get((s, eid)), want=want)
    for (s, eid) in mp:
        if s not in so or eid not in eo:
            return "incidence-sparse-extra", dict(key=(s, eid))
    return None


def snapshot(h):
    return (
        {k: (e.id, e.rule, e.reactants.to_dict(), e.products.to_dict()) for k, e in h.edges.items()},
        set(h.species), {k: set(v) for k, v in h.species_to_in_edges.items()},
        {k: set(v) for k, v in h.species_to_out_edges.items()}, dict(h.species_to_mol),
    )


def h_history(E, depth, family):
    from synkit.CRN.Hypergraph.hypergraph import CRNHyperGraph

    h = CRNHyperGraph()
    ref = Ref()
    copies = []  # (copy object, snapshot at copy time)
    succeeded = 0
    if family == "many":
        # prelude: a chain of k reactions r_1..r_k arrives from another network under its own ids
        k = int(E.int("chain", 8, 11))
        other = CRNHyperGraph()
        for j in range(1, k + 1):
            other.add_rxn({"A": j}, {"B": 1}, rule="r")
        h.merge(other, prefix_edges=False)
        for j in range(1, k + 1):
            ref.edges["r_%d" % j] = ("r", {"A": j}, {"B": 1})
        bad = invariant(h, ref)
        if bad:
            E.check(True, bad[0], dict(step="prelude", info=bad[1]))
            return
    if family in ("ids", "many"):
        ops = ["add", "rm", "merge", "copy"]
    elif family == "cp":
        ops = ["add", "rm", "rmsp", "copy", "cpedit"]
    else:
        ops = ["add", "rm", "rmsp", "mol", "molmap", "copy"]
    for i in range(depth):
        op = E.choice("op%d" % i, ops if not (family == "cp" and i == 0) else ["add"])
        before = snapshot(h)
        refb = ref.clone()
        raised = None
        if op == "add":
            rule = E.choice("rule%d" % i, RULES)
            eid = E.choice("id%d" % i, IDS if family in ("ids", "many") else ["<gen>", "x"])
            if family in ("ids", "many"):
                # each reaction of a history gets its own stoichiometry (coefficient i+1) so "own stoichiometry"
                # is checkable
                r, p = {"A": 1}, {"B": i + 20 if family == "many" else i + 1}
            elif family == "cp":
                k = E.int("st%d" % i, 0, 3)
                r, p = CP_POOL[int(k)]
            else:
                k = E.int("st%d" % i, 0, len(POOL) - 1)
                r, p = POOL[int(k)]
            rule_s, eid_s = str(rule), str(eid)
            try:
                e = h.add_rxn(dict(r), dict(p), rule=rule_s, edge_id=None if eid_s == "<gen>" else eid_s)
            except KeyError as ex:
                raised = ex
                if not (eid_s != "<gen>" and eid_s in ref.edges):
                    E.check(True, "add-raises-unexpectedly", dict(step=i, id=eid_s))
                    return
            else:
                new_id = e.id
                if eid_s != "<gen>" and new_id != eid_s:
                    E.check(True, "explicit-id-not-used", dict(step=i, asked=eid_s, got=new_id))
                    return
                if new_id in ref.edges:
                    E.check(True, "id-refers-to-two-reactions", dict(step=i, id=new_id, generated=eid_s == "<gen>",
                                                                      existing=ref.edges[new_id]))
                    return
                ref.edges[new_id] = (rule_s, dict(r), dict(p))
        elif op == "rm":
            eid = str(E.choice("id%d" % i, IDS[1:] if family in ("ids", "many") else ["r_1", "q_1", "x"]))
            try:
                h.remove_rxn(eid)
            except KeyError as ex:
                raised = ex
                if eid in ref.edges:
                    E.check(True, "remove-raises-unexpectedly", dict(step=i, id=eid))
                    return
            else:
                if eid not in ref.edges:
                    E.check(True, "remove-of-absent-id-succeeds", dict(step=i, id=eid))
                    return
                del ref.edges[eid]
        elif op == "rmsp":
            s = str(E.choice("sp%d" % i, SPECIES))
            prune = bool(E.bool("prune%d" % i))
            try:
                h.remove_species(s, prune_orphans=prune)
            except KeyError as ex:
                raised = ex
                if s in refb.species() | refb.kept:
                    E.check(True, "remove-species-raises-unexpectedly", dict(step=i, species=s))
                    return
            else:
                for eid in list(ref.edges):
                    rule, r, p = ref.edges[eid]
                    r = {k: v for k, v in r.items() if k != s}
                    p = {k: v for k, v in p.items() if k != s}
                    if not r and not p:
                        del ref.edges[eid]
                    else:
                        ref.edges[eid] = (rule, r, p)
                if prune:
                    ref.kept.discard(s)
                else:
                    ref.kept.add(s)
                    if s not in h.species:
                        E.check(True, "species-the-caller-chose-to-keep-was-dropped", dict(step=i, species=s))
                        return
        elif op == "mol":
            s = str(E.choice("sp%d" % i, SPECIES))
            try:
                h.assign_mol(s, "m%d" % i)
            except KeyError as ex:
                raised = ex
                if s in ref.species() | ref.kept:
                    E.check(True, "assign-mol-raises-unexpectedly", dict(step=i, species=s))
                    return
            else:
                ref.mol[s] = "m%d" % i
        elif op == "molmap":
            s = str(E.choice("sp%d" % i, SPECIES))
            strict = bool(E.bool("strict%d" % i))
            clear = bool(E.bool("clear%d" % i))
            present = ref.species() | ref.kept
            try:
                h.set_mol_map({s: "mm%d" % i, "A": "ma%d" % i}, strict=strict, clear_existing=clear)
            except KeyError as ex:
                raised = ex
                if not (strict and ({s, "A"} - present)):
                    E.check(True, "set-mol-map-raises-unexpectedly", dict(step=i))
                    return
            else:
                if clear:
                    ref.mol.clear()
                for k, v in ((s, "mm%d" % i), ("A", "ma%d" % i)):
                    if k in present:
                        ref.mol[k] = v
        elif op == "merge":
            oid = str(E.choice("oid%d" % i, ["r_1", "x"]))
            prefix = bool(E.bool("prefix%d" % i))
            other = CRNHyperGraph()
            other.add_rxn({"A": 1}, {"C": i + 1}, rule="r", edge_id=oid)
            other.add_rxn({"B": 1}, {"C": i + 1}, rule="q")
            # a second reaction of rule r with a generated id (r_2 next to r_1): when r_1 has to be re-numbered on merging,
            # the new number must not be one that a later reaction of the other network still carries
            oid2 = other.add_rxn({"B": 2}, {"A": i + 1}, rule="r")
            oid2 = oid2 if isinstance(oid2, str) else [k for k in other.edges if k not in (oid, "q_1")][0]
            old = set(ref.edges)
            h.merge(other, prefix_edges=prefix)
            new = set(h.edges) - old
            got = sorted((h.edges[k].rule, sorted(h.edges[k].reactants.to_dict().items()),
                          sorted(h.edges[k].products.to_dict().items())) for k in new)
            want = sorted([("r", [("A", 1)], [("C", i + 1)]), ("q", [("B", 1)], [("C", i + 1)]), ("r", [("B", 2)], [("A", i + 1)])])
            if got != want or not (old <= set(h.edges)):
                E.check(True, "merge-lost-or-overwrote-a-reaction",
                        dict(step=i, prefix=prefix, other_ids=[oid, "q_1", oid2], before=sorted(old), after=sorted(h.edges),
                             new=got))
                return
            if not prefix:
                for k in (oid, "q_1", oid2):
                    if k not in old and k not in new:
                        E.check(True, "merge-changed-a-free-id", dict(step=i, id=k))
                        return
            for k in new:
                e = h.edges[k]
                ref.edges[k] = (e.rule, e.reactants.to_dict(), e.products.to_dict())
            # later edits of the merged-in network must not reach this store
            other.remove_species("C")
            other.add_rxn({"C": 5}, {"A": 5}, rule="r")
        elif op == "copy":
            c = h.copy()
            copies.append((c, snapshot(c), ref.clone()))
        elif op == "cpedit":
            # edit a copy: the original must not notice
            c = h.copy()
            s = str(E.choice("sp%d" % i, SPECIES))
            try:
                c.remove_species(s)
            except KeyError:
                pass
            c.add_rxn({"C": 3}, {"B": 3}, rule="r")
            if snapshot(h) != before:
                E.check(True, "original-affected-by-edit-of-copy", dict(step=i, species=s))
                return
        if raised is not None:
            if snapshot(h) != before:
                E.check(True, "failed-operation-changed-the-store", dict(step=i, op=str(op), error=repr(raised)))
                return
        else:
            succeeded += 1
        bad = invariant(h, ref)
        if bad:
            E.check(True, bad[0], dict(step=i, op=str(op), info=bad[1]))
            return
        # labels / kept marks of species that have left the store are gone for good
        ref.mol = {k: v for k, v in ref.mol.items() if k in h.species}
        ref.kept &= set(h.species)
        for c, snap, cref in copies:
            if snapshot(c) != snap:
                E.check(True, "copy-affected-by-edit-of-original", dict(step=i, op=str(op)))
                return
            badc = invariant(c, cref)
            if badc:
                E.check(True, "copy-" + badc[0], dict(step=i))
                return
    E.note(nontrivial=succeeded >= 2 and len(ref.edges) >= 1)
    E.check(False, "history-consistent")
    E.observe((sorted(h.edges), sorted(h.species)))


HARNESSES = {"history": h_history}


def shards(tier, seed):
    d = 3 if tier == "quick" else 4
    di = 2 if tier == "quick" else 3
    return [
        dict(h="history", params=dict(depth=d, family="ids")),
        dict(h="history", params=dict(depth=di, family="idx")),
        dict(h="history", params=dict(depth=d, family="cp")),
        dict(h="history", params=dict(depth=2 if tier == "quick" else 3, family="many")),
    ]
