"""C11 — automorphism groups and orbits are exact; the fast estimate never splits an orbit; de-duplication returns
an order-preserving sub-list; symmetry pruning inside rule application loses no distinct reaction (harness shared
with C05)."""
from __future__ import annotations

import itertools

import networkx as nx

from symx import AND, OR, NOT, EQ, COUNT, term_bool
from vf.graphs import all_shapes, sym_mol

PROPERTY = "C11"
ALPHABET = ["C", "N", "O", "*", "H", ""]

META = dict(
    bounds=dict(
        quick="exact analysis: all graphs (connected and disconnected) on <=4 nodes, element in {C,N}, charge in {0,1} (and {-2,-1}, the pair of small integers whose hash() values collide, on 2-3 atoms), "
              "bond order in {1,2}, all symbolic; fast estimate (AutoEst): all graphs on <=4 nodes with <=4 bonds (labels "
              "are hashed there, so enumerated); de-duplication: all lists of <=3 injective matches of a 3-node pattern "
              "into 3 host nodes under solver-chosen orbit partitions, anchors and host orbits; pruning inside rule application: k=2 and k=3 (carbon-only) centre templates on substrates <=3 atoms and the [2+2] family, pruned result set against gluing every raw match",
        thorough="adds 5-node graphs with <=5 bonds, C5, C6, K2,3 for the exact analysis; 5-node shapes for the estimate",
    ),
    outside=["graphs > 5 nodes (6 for the listed families)", "directed graphs", "OrbitAccuracy report helper"],
    stubs=[],
    assumptions=["for disconnected graphs the reference group is the product of the component groups (component swaps "
                 "excluded, as documented)",
                 "AutoEst and deduplicate_matches_with_anchor hash their inputs: those harnesses are solver-driven enumeration"],
    rule="one evaluation = one symbolic path (exact: through VF2 self-matching); non-trivial = the group on the path has "
         "more than one element",
)
WALL = dict(quick=170, thorough=1500)
MIN_PATHS = dict(quick=300, thorough=3000)


def valid_auto(g, sigma):
    """formula: the concrete node permutation sigma (within components) preserves labels and bonds."""
    conj = []
    for u, v in g.edges:
        if not g.has_edge(sigma[u], sigma[v]):
            return False
    for u in g.nodes:
        if sigma[u] != u:
            conj.append(EQ(g.nodes[u]["element"], g.nodes[sigma[u]]["element"]))
            conj.append(EQ(g.nodes[u]["charge"], g.nodes[sigma[u]]["charge"]))
    for u, v in g.edges:
        a, b = sigma[u], sigma[v]
        if {a, b} != {u, v}:
            conj.append(EQ(g[u][v]["order"], g[a][b]["order"]))
    return AND(conj)


def component_perms(g):
    comps = [sorted(c) for c in nx.connected_components(g)]
    per = []
    for c in comps:
        per.append([dict(zip(c, p)) for p in itertools.permutations(c)])
    for combo in itertools.product(*per):
        s = {}
        for d in combo:
            s.update(d)
        yield s


def true_orbit_formulas(g):
    sig = [(s, valid_auto(g, s)) for s in component_perms(g)]
    sig = [(s, f) for s, f in sig if f is not False]
    same = {}
    for u, v in itertools.combinations(list(g.nodes), 2):
        same[u, v] = OR([f for s, f in sig if s[u] == v])
    return sig, same


def h_exact(E, n, edges, charges=(0, 1)):
    from synkit.Graph.Matcher.automorphism import Automorphism

    g, _ = sym_mol(E, "g", n, [tuple(e) for e in edges], elements=("C", "N"), hcounts=(0,), charges=tuple(charges), orders=(1, 2))
    a = Automorphism(g)
    n_aut = a.n_automorphisms
    orbits = [frozenset(o) for o in a.orbits]
    sig, same = true_orbit_formulas(g)
    count = COUNT([f for _, f in sig])
    info = dict(edges=edges, n_automorphisms=n_aut, orbits=[sorted(o) for o in orbits])
    E.check(NOT(EQ(count, n_aut)), "automorphism-count-is-exact", info)
    cover = sorted(x for o in orbits for x in o)
    E.check(cover != sorted(g.nodes), "orbits-partition-the-nodes", info)
    idx = {x: i for i, o in enumerate(orbits) for x in o}
    bad = []
    for (u, v), f in same.items():
        bad.append(NOT(f) if idx.get(u) == idx.get(v) else f)
    E.check(OR(bad), "orbits-are-the-exchangeability-classes", info)
    # a second analysis object read in the other order: orbits (and anchor) first, the count afterwards
    b = Automorphism(g)
    orbits_b = [frozenset(o) for o in b.orbits]
    _ = b.anchor_component
    n_b = b.n_automorphisms
    E.check(OR(NOT(EQ(count, n_b)), sorted(map(sorted, orbits_b)) != sorted(map(sorted, orbits))),
            "result-depends-on-the-order-in-which-the-properties-are-read", dict(info, count_after_orbits=n_b))
    E.note(nontrivial=n_aut > 1)
    E.observe((n_aut, sorted(sorted(o) for o in orbits)))


def h_est(E, n, edges):
    from synkit.Graph.Matcher.auto_est import AutoEst

    g, _ = sym_mol(E, "g", n, [tuple(e) for e in edges], elements=("C", "N"), hcounts=(0,), charges=(0, 1), orders=(1, 2))
    est = AutoEst(g).fit()
    orbits = [frozenset(o) for o in est.orbits]
    idx = {x: i for i, o in enumerate(orbits) for x in o}
    _, same = true_orbit_formulas(g)
    bad = [sorted(x for o in orbits for x in o) != sorted(g.nodes)]
    for (u, v), f in same.items():
        if idx.get(u) != idx.get(v):
            bad.append(f)
    E.check(OR(bad), "estimate-never-separates-a-true-orbit", dict(edges=edges, orbits=[sorted(o) for o in orbits]))
    ac = est.anchor_component
    comps = [frozenset(c) for c in nx.connected_components(g)]
    E.check(frozenset(ac) not in comps or len(ac) != max(len(c) for c in comps), "anchor-is-a-largest-component",
            dict(anchor=sorted(ac)))
    E.note(nontrivial=len(orbits) < n)
    E.observe(sorted(sorted(o) for o in orbits))


def h_dedup(E, k, with_host):
    """deduplicate_matches_with_anchor: order-preserving sub-list, first match kept, idempotent."""
    from synkit.Graph.Matcher.dedup_matches import deduplicate_matches_with_anchor as dd

    P, H = [1, 2, 3], [11, 12, 13]
    matches = []
    for i in range(k):
        img = [E.int("m%d_%d" % (i, p), 0, 2) for p in P]
        E.assume(AND(NOT(EQ(img[0], img[1])), NOT(EQ(img[0], img[2])), NOT(EQ(img[1], img[2]))))
        partial = bool(E.bool("partial%d" % i))
        d = {p: H[int(x)] for p, x in zip(P, img)}
        if partial:
            d.pop(3)
        matches.append(d)
    # pattern orbit partition via block labels, anchor = one block or empty
    # set partitions as restricted-growth strings
    pb = [E.int("pb%d" % p, 0, 2) for p in P]
    E.assume(AND(EQ(pb[0], 0), term_bool(pb[1] <= 1), OR(term_bool(pb[2] <= 1), EQ(pb[1], 1))))
    blocks = [int(x) for x in pb]
    porb = [frozenset(p for p, b in zip(P, blocks) if b == x) for x in sorted(set(blocks))]
    anchor_block = int(E.int("anchor", -1, 2))
    anchor = frozenset(p for p, b in zip(P, blocks) if b == anchor_block)
    horb = None
    if with_host:
        hbs = [E.int("hb%d" % h, 0, 2) for h in H]
        E.assume(AND(EQ(hbs[0], 0), term_bool(hbs[1] <= 1), OR(term_bool(hbs[2] <= 1), EQ(hbs[1], 1))))
        hb = [int(x) for x in hbs]
        horb = [frozenset(h for h, b in zip(H, hb) if b == x) for x in sorted(set(hb))]
    use_p = bool(E.bool("use_pattern_orbits"))
    kw = dict(pattern_orbits=porb if use_p else None, pattern_anchor=anchor if use_p else None, host_orbits=horb)
    if with_host:
        # the documented (inert) host_anchor argument: nothing or the last host node (an anchor component need not be a union of orbits)
        hai = int(E.choice("hanchor", [-1, 2]))
        if hai >= 0:
            kw["host_anchor"] = frozenset([H[hai]])
    out = dd(matches, **kw)
    info = dict(matches=[sorted(m.items()) for m in matches], kw={a: ([sorted(o) for o in b] if isinstance(b, list) else
                                                                     (sorted(b) if b is not None else None)) for a, b in kw.items()},
                out=[sorted(m.items()) for m in out])
    # sub-list in the original order (by identity)
    it = iter(matches)
    sub = all(any(m is x for x in it) for m in out)
    E.check(not sub, "output-is-an-order-preserving-sub-list", info)
    E.check(bool(matches) and (not out or out[0] is not matches[0]), "first-match-is-kept", info)
    out2 = dd(list(out), **kw)
    E.check([id(x) for x in out2] != [id(x) for x in out], "deduplication-is-idempotent", info)
    E.check(len(matches) != k or any(len(m) not in (2, 3) for m in matches), "input-list-untouched", info)
    E.note(nontrivial=len(out) < len(matches))
    E.observe([sorted(m.items()) for m in out])


def h_pruning(E, k, hn, hedges, invert):
    """the symmetry pruning used during rule application never changes the set of distinct reactions compared with
    applying the rule at every raw match (same oracle as in the C05 harness)."""
    from synkit.Graph.ITS.its_construction import ITSConstruction
    from synkit.Graph.ITS.its_decompose import get_rc
    from harness.reactor_common import sym_reaction, sym_substrate, balance_assumption, reactor, check_sets_equal
    from harness.c05 import glue_all_raw

    els = ("C", "O") if k == 2 else ("C",)
    Gt, Ht, ts = sym_reaction(E, "t", k, hs=(0, 1) if k == 2 else (0,), cs=(0,), orders=(0, 1, 2) if k == 2 else (0, 1),
                              ids=[11 + i for i in range(k)], els=els)
    rc = get_rc(ITSConstruction.ITSGraph(Gt, Ht))
    if rc.number_of_nodes() == 0:
        E.note(nontrivial=False)
        return
    E.assume(balance_assumption(ts, list(rc.nodes)))
    host = sym_substrate(E, "s", hn, hedges, hs=(0, 1), cs=(0,), els=els)
    n_p = n_u = 0
    for s in ("all", "comp"):
        R = reactor(host, rc, s, invert)
        pruned, unpruned = R.its_list, glue_all_raw(R)
        n_p, n_u = max(n_p, len(pruned)), max(n_u, len(unpruned))
        check_sets_equal(E, pruned, unpruned, "symmetry-pruning-changes-the-set-of-distinct-reactions",
                         dict(template_edges=sorted(map(sorted, rc.edges)), host=hedges, strategy=s, invert=invert,
                              n_pruned=len(pruned), n_raw=len(unpruned)))
    E.note(nontrivial=n_u > n_p)
    E.observe((n_p, n_u))


def h_pruning_history(E, k, hn, hedges, invert):
    from harness.c05 import h_history

    h_history(E, k, hn, hedges, invert)


def h_pruning_family(E, family, invert):
    from harness.c05 import h_family

    h_family(E, family, invert)


HARNESSES = {"exact": h_exact, "est": h_est, "dedup": h_dedup, "pruning": h_pruning, "pruning_family": h_pruning_family,
             "pruning_history": h_pruning_history}


def shards(tier, seed):
    sh = []
    shapes = [(n, es) for n in (1, 2, 3, 4) for es in all_shapes(n)]
    for n, es in shapes:
        sh.append(dict(h="exact", params=dict(n=n, edges=es)))
        if len(es) <= 4:
            sh.append(dict(h="est", params=dict(n=n, edges=es)))
    # charges -1 / -2: the one pair of small integers with equal hash() in CPython - labels that differ but collide in
    # any hash-based comparison
    for n, es in shapes:
        if n in (2, 3) and es:
            sh.append(dict(h="exact", params=dict(n=n, edges=es, charges=[-2, -1])))
    if tier == "thorough":
        for es in all_shapes(5, max_edges=5):
            sh.append(dict(h="exact", params=dict(n=5, edges=es)))
            if len(es) in (4, 5):
                sh.append(dict(h="est", params=dict(n=5, edges=es)))
        sh.append(dict(h="exact", params=dict(n=6, edges=[[1, 2], [2, 3], [3, 4], [4, 5], [5, 6], [1, 6]])))
        sh.append(dict(h="exact", params=dict(n=5, edges=[[1, 3], [1, 4], [1, 5], [2, 3], [2, 4], [2, 5]])))
    for hn in (2, 3):
        for es in all_shapes(hn):
            sh.append(dict(h="pruning", params=dict(k=2, hn=hn, hedges=es, invert=(len(es) % 2 == 1))))
            if hn == 3:
                sh.append(dict(h="pruning", params=dict(k=3, hn=hn, hedges=es, invert=(len(es) % 2 == 0))))
    sh.append(dict(h="pruning_family", params=dict(family="2+2", invert=False)))
    sh.append(dict(h="pruning_family", params=dict(family="2+2-adj", invert=True)))
    for es in all_shapes(3):
        sh.append(dict(h="pruning_history", params=dict(k=3, hn=3, hedges=es, invert=(len(es) % 2 == 1))))
    sh.append(dict(h="dedup", params=dict(k=2, with_host=True)))
    sh.append(dict(h="dedup", params=dict(k=2, with_host=False)))
    if tier == "thorough":
        sh.append(dict(h="dedup", params=dict(k=3, with_host=False)))
    return sh
