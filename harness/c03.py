"""C03 — every reaction proposed by rule application is a genuine instance of the rule."""
from __future__ import annotations

import itertools

from symx import AND, OR, NOT, EQ, GE, SUM, term_bool
from vf.graphs import all_shapes, pairs
from harness.reactor_common import (ALPHABET, sym_reaction, sym_substrate, balance_assumption, its_labels, reactor)  # noqa

PROPERTY = "C03"

META = dict(
    bounds=dict(
        quick="templates: reaction centres of all reactions on k=2 atoms and (without hydrogens, on reduced substrate domains) k=3 atoms (element in {C,O}, hcount per side 0..1, "
              "charge per side 0..1, bond order per side 0..2) that are hydrogen- and charge-balanced over the centre; "
              "substrates: all shapes on <=3 atoms (element {C,O}, hcount 0..2, charge 0..1, order 1..2, all symbolic) and, for "
              "k=2, all shapes on 4 atoms with <=3 bonds (hcount 0..1, charge 0); forward and "
              "invert=True; strategies all/comp/bt; implicit-hydrogen mode (implicit_temp=True, explicit_h=False); explicit-hydrogen "
              "mode (default flags) for two concrete templates with hydrogen atoms in the centre (keto-enol shift, MPV transfer "
              "hydrogenation with two independent hydrogen migrations, esterification as full-ITS template with a non-migrating explicit hydrogen, deprotonation to a free H+, imine condensation with two hydrogens moving between the same pair of atoms) on their skeleton with symbolic substituents and every numbering; symbolic explicit-hydrogen reactions (explicit_sym: <=2 heavy atoms, <=3 hydrogens incl. free protons/hydrides, centre and full-ITS template, duplicated one-atom molecule); templates with one wildcard atom (two symbolic real atoms + a * atom whose bond is formed or broken) on 2-3 atom substrates whose node ids may have gaps",
        thorough="more strategy/direction combinations for k=3, all strategies on 4-atom substrates, k=3 templates without "
                 "hydrogens on 4-atom substrates",
    ),
    outside=["smarts_list / _to_smarts (RDKit) and everything said about output strings", "templates with more than one wildcard atom or with a wildcard whose bond does not change, "
             "partial=True", "explicit-hydrogen mode beyond the listed families and the symbolic 1-3 hydrogen reactions", "templates that are not balanced "
             "over their centre (a centre only contains atoms incident to a changed bond; clause b is claimed for balanced "
             "templates only)"],
    stubs=["NoCanon canonicaliser passed through the public canonicaliser= parameter (identity, constant signature)"],
    assumptions=["sum of hcount changes and of charge changes over the centre's atoms is zero",
                 "the template's left side is hashed by AutoEst, so those labels are realised per path; the right side and "
                 "all substrate labels stay symbolic"],
    rule="one evaluation = one symbolic path through SynRule construction, VF2 matching, de-duplication and gluing; "
         "non-trivial = at least one reaction is proposed",
)
WALL = dict(quick=240, thorough=1500)
MIN_PATHS = dict(quick=300, thorough=3000)


def judge_results(E, res, host, rc, ts, invert, info):
    Ls, Rs = ("G", "H") if not invert else ("H", "G")
    hn = list(host.nodes)
    tn = list(rc.nodes)
    bad_a, bad_b, bad_c = [], [], []
    for r in res:
        nl, el = its_labels(r)
        # (a) left side is the substrate, unchanged
        if set(nl) != set(hn):
            bad_a.append(True)
            continue
        for v in hn:
            d = host.nodes[v]
            bad_a.append(NOT(EQ(nl[v][0], (d["element"], d["aromatic"], d["hcount"], d["charge"]))))
        for x, y in pairs(hn):
            k = frozenset((x, y))
            ol = el[k][0] if k in el else 0
            want = host[x][y]["order"] if host.has_edge(x, y) else 0
            bad_a.append(NOT(EQ(ol, want)))
        # (b) conservation
        bad_b.append(NOT(EQ(SUM([nl[v][0][2] for v in hn]), SUM([nl[v][1][2] for v in hn]))))
        bad_b.append(NOT(EQ(SUM([nl[v][0][3] for v in hn]), SUM([nl[v][1][3] for v in hn]))))
        for v in hn:
            bad_b.append(NOT(EQ(nl[v][0][0], nl[v][1][0])))
        # (c) differs from the substrate by exactly the template's changes, at some placement of the template
        alts = []
        for img in itertools.permutations(hn, len(tn)):
            f = dict(zip(tn, img))
            inv = {x: u for u, x in f.items()}
            c = []
            for u in tn:
                d = host.nodes[f[u]]
                c.append(EQ(d["element"], ts["el"][u]))
                c.append(EQ(d["charge"], ts["c"][Ls, u]))
                c.append(GE(d["hcount"], ts["h"][Ls, u]))
            ok = True
            for u, v in pairs(tn):
                in_rc = rc.has_edge(u, v)
                lo = ts["o"][Ls, u, v] if in_rc else 0
                if host.has_edge(f[u], f[v]):
                    if in_rc:
                        c.append(OR(EQ(lo, 0), EQ(lo, host[f[u]][f[v]]["order"])))
                else:
                    c.append(EQ(lo, 0))
            for x, y in pairs(hn):
                k = frozenset((x, y))
                o = el.get(k, (0, 0))
                delta = o[1] - o[0]
                if x in inv and y in inv and rc.has_edge(inv[x], inv[y]):
                    u, v = inv[x], inv[y]
                    c.append(EQ(delta, ts["o"][Rs, u, v] - ts["o"][Ls, u, v]))
                else:
                    c.append(EQ(delta, 0))
            for x in hn:
                dh = nl[x][1][2] - nl[x][0][2]
                dc = nl[x][1][3] - nl[x][0][3]
                if x in inv:
                    u = inv[x]
                    c.append(EQ(dh, ts["h"][Rs, u] - ts["h"][Ls, u]))
                    c.append(EQ(dc, ts["c"][Rs, u] - ts["c"][Ls, u]))
                else:
                    c.append(EQ(dh, 0))
                    c.append(EQ(dc, 0))
                c.append(EQ(nl[x][1][1], nl[x][0][1]))  # aromatic flag untouched
            alts.append(AND(c))
        bad_c.append(NOT(OR(alts)))
    E.check(OR(bad_a), "reactant-side-is-the-unchanged-substrate", info)
    E.check(OR(bad_b), "elements-hydrogens-and-charge-are-conserved", info)
    E.check(OR(bad_c), "result-differs-by-exactly-the-template-changes", info)


def h_instance(E, k, hn, hedges, strategy, invert, hmax_t=1, lite=False):
    from synkit.Graph.ITS.its_construction import ITSConstruction
    from synkit.Graph.ITS.its_decompose import get_rc

    Gt, Ht, ts = sym_reaction(E, "t", k, hs=tuple(range(hmax_t + 1)), ids=[11 + i for i in range(k)])
    rc = get_rc(ITSConstruction.ITSGraph(Gt, Ht))
    if rc.number_of_nodes() == 0:
        E.note(nontrivial=False)
        return
    E.assume(balance_assumption(ts, list(rc.nodes)))
    host = sym_substrate(E, "s", hn, hedges, hs=(0, 1) if lite else (0, 1, 2), cs=(0,) if lite and hn >= 3 else (0, 1))
    R = reactor(host, rc, strategy, invert)
    res = R.its_list
    info = dict(template_nodes=sorted(rc.nodes), template_edges=sorted(map(sorted, rc.edges)), host=hedges,
                strategy=strategy, invert=invert, n_results=len(res))
    judge_results(E, res, host, rc, ts, invert, info)
    E.note(nontrivial=len(res) > 0)
    E.observe(len(res))


def h_wild(E, hn, hedges, strategy, invert, ids=None):
    """a template with a wildcard atom: two real atoms (fully symbolic, as in `instance`) plus one '*' atom whose bond to the
    first real atom is formed or broken by the rule.  The reactor matches the real part and adds a placeholder atom for the
    wildcard; apart from that placeholder every result must satisfy (a)-(c), and the placeholder must hang on one substrate
    atom through exactly the template's wildcard bond.  Substrate node ids may have gaps."""
    from synkit.Graph.ITS.its_construction import ITSConstruction
    from synkit.Graph.ITS.its_decompose import get_rc

    k = 2
    Gt, Ht, ts = sym_reaction(E, "t", k, hs=(0, 1), ids=[11, 12])
    wa, wb = [(1, 0), (0, 1)][int(E.int("wdir", 0, 1))]
    for g, o in ((Gt, wa), (Ht, wb)):
        g.add_node(13, element="*", aromatic=False, hcount=0, charge=0, atom_map=13)
        if o:
            g.add_edge(11, 13, order=o)
    rc = get_rc(ITSConstruction.ITSGraph(Gt, Ht))
    E.assume(balance_assumption(ts, [v for v in rc.nodes if v != 13]))
    host = sym_substrate(E, "s", hn, hedges, hs=(0, 1), cs=(0,), ids=ids)
    R = reactor(host, rc, strategy, invert)
    res = R.its_list
    info = dict(template_nodes=sorted(rc.nodes), host=hedges, host_ids=sorted(host.nodes), strategy=strategy, invert=invert,
                wildcard_bond=(wa, wb), n_results=len(res))
    want_w = (wb, wa) if invert else (wa, wb)
    stripped, bad_w = [], []
    for r in res:
        extra = [v for v in r.nodes if v not in host.nodes]
        ok = len(extra) == 1 and r.nodes[extra[0]]["typesGH"][0][0] == "*" and r.nodes[extra[0]]["typesGH"][1][0] == "*" \
            and r.degree(extra[0]) == 1
        if not ok:
            bad_w.append(True)
            continue
        w = extra[0]
        (x,) = list(r.neighbors(w))
        bad_w.append(NOT(EQ(tuple(r[w][x]["order"]), want_w)))
        r2 = r.copy()
        r2.remove_node(w)
        stripped.append(r2)
    E.check(OR(bad_w), "wildcard-placeholder-hangs-on-one-atom-through-the-templates-bond", info)
    rc_real = rc.subgraph([v for v in rc.nodes if v != 13]).copy()
    if rc_real.number_of_nodes():
        judge_results(E, stripped, host, rc_real, ts, invert, info)
    E.note(nontrivial=len(res) > 0)
    E.observe(len(res))


# --------------------------------------------------------------------------- explicit-hydrogen mode, concrete templates
XH_FAMILIES = {
    # (heavy atoms: id -> element), explicit template hydrogens, bonds before / after (u, v, order)
    "MPV": dict(heavy={1: "C", 3: "O", 5: "C", 6: "O"}, hyd=[2, 4],
                G=[(1, 2, 1), (1, 3, 1), (3, 4, 1), (5, 6, 2)], H=[(1, 3, 2), (5, 2, 1), (5, 6, 1), (6, 4, 1)],
                # substrate skeleton: template heavy atoms + one substituent on each carbon
                sub_bonds=[(1, 3, 1), (5, 6, 2), (1, 7, 1), (5, 8, 1)], sub_h={1: 1, 3: 1, 5: 0, 6: 0}),
    # esterification written with a non-migrating explicit hydrogen (H5 stays on O4) next to the migrating one (H8): the
    # full ITS is the template (H5's bond does not change, so it is not part of the centre)
    "ester": dict(heavy={2: "C", 3: "O", 4: "O", 6: "C", 7: "O"}, hyd=[5, 8], full=True,
                  G=[(2, 3, 2), (2, 4, 1), (4, 5, 1), (6, 7, 1), (7, 8, 1)], H=[(2, 3, 2), (2, 7, 1), (6, 7, 1), (4, 5, 1), (4, 8, 1)],
                  sub_bonds=[(2, 3, 2), (2, 4, 1), (6, 7, 1), (2, 9, 1)], sub_h={2: 0, 3: 0, 4: 1, 6: 3, 7: 1}),
    # deprotonation: the hydrogen itself changes (X-H -> X- + H+)
    "deprot": dict(heavy={1: "O"}, hyd=[2], G=[(1, 2, 1)], H=[], charge_H={1: -1, 2: 1},
                   sub_bonds=[(1, 7, 1)], sub_h={1: 1}),
    # condensation: both hydrogens of NH2 go to the same oxygen (two migrations between one donor/acceptor pair)
    "imine": dict(heavy={1: "C", 2: "O", 3: "N"}, hyd=[4, 5],
                  G=[(1, 2, 2), (3, 4, 1), (3, 5, 1)], H=[(1, 3, 2), (2, 4, 1), (2, 5, 1)],
                  sub_bonds=[(1, 2, 2), (1, 7, 1), (3, 8, 1)], sub_h={1: 1, 2: 0, 3: 2}),
    # reductive amination: backwards, water's oxygen keeps one hydrogen implicit (it goes to N) next to an explicit one
    # (it ends in H-H)
    "redam": dict(heavy={1: "C", 2: "O", 3: "N"}, hyd=[4, 5, 6],
                  G=[(1, 2, 2), (3, 4, 1), (5, 6, 1)], H=[(1, 3, 1), (1, 5, 1), (2, 4, 1), (2, 6, 1)],
                  sub_bonds=[(1, 2, 2), (1, 7, 1), (3, 8, 1)], sub_h={1: 1, 2: 0, 3: 2}),
    # N-N coupling: N1 loses one hydrogen to the alkoxide oxygen and one into H-H (with a hydrogen of N2); the two nitrogens
    # can take either role in the heavy-atom match of the centre
    "ncouple": dict(heavy={1: "N", 2: "N", 3: "O"}, hyd=[4, 5, 6],
                    G=[(1, 4, 1), (1, 5, 1), (2, 6, 1)], H=[(1, 2, 1), (3, 4, 1), (5, 6, 1)],
                    charge_G={3: -1}, charge_H={1: -1},
                    sub_bonds=[(1, 7, 1), (2, 8, 1), (3, 9, 1)], sub_h={1: 2, 2: 2, 3: 0}),
    "enol": dict(heavy={1: "C", 3: "C", 4: "O"}, hyd=[2],
                 G=[(1, 2, 1), (1, 3, 1), (3, 4, 2)], H=[(1, 3, 2), (3, 4, 1), (4, 2, 1)],
                 sub_bonds=[(1, 3, 1), (3, 4, 2), (3, 7, 1)], sub_h={1: 1, 3: 0, 4: 0}),
}


def changed_bond_graph(its):
    """nodes = end atoms of bonds whose order changes, labelled (element, hydrogen-count change); edges labelled with the
    change of order"""
    import networkx as nx

    g = nx.Graph()
    for u, v, d in its.edges(data=True):
        o = d["order"]
        if o[0] != o[1]:
            g.add_edge(u, v, delta=o[1] - o[0])
    for v in g.nodes:
        t = its.nodes[v]["typesGH"]
        g.nodes[v]["lab"] = (t[0][0], t[1][2] - t[0][2])
    return g


def h_explicit(E, family):
    import networkx as nx

    from synkit.Graph.ITS.its_construction import ITSConstruction
    from synkit.Graph.ITS.its_decompose import get_rc, its_decompose
    from synkit.Graph.Hyrogen._misc import h_to_implicit
    from synkit.Synthesis.Reactor.syn_reactor import SynReactor
    from harness.reactor_common import NoCanon
    from vf.graphs import iso_formula

    fam = XH_FAMILIES[family]
    Gt, Ht = nx.Graph(), nx.Graph()
    for g in (Gt, Ht):
        for v, el in fam["heavy"].items():
            g.add_node(v, element=el, aromatic=False, hcount=0, charge=0, atom_map=v)
        for v in fam["hyd"]:
            g.add_node(v, element="H", aromatic=False, hcount=0, charge=0, atom_map=v)
    for u, v, o in fam["G"]:
        Gt.add_edge(u, v, order=o)
    for u, v, o in fam["H"]:
        Ht.add_edge(u, v, order=o)
    for v, c in fam.get("charge_H", {}).items():
        Ht.nodes[v]["charge"] = c
    for v, c in fam.get("charge_G", {}).items():
        Gt.nodes[v]["charge"] = c
    tmpl_its = ITSConstruction.ITSGraph(Gt, Ht)
    rc = tmpl_its if fam.get("full") else get_rc(tmpl_its)
    # substrate: the template's heavy skeleton with implicit hydrogens, substituents with symbolic labels, and a
    # solver-chosen numbering / insertion order (how the SMILES happens to be written)
    heavy = sorted(fam["heavy"])
    subs = sorted({v for b in fam["sub_bonds"] for v in b[:2]} - set(heavy))
    allv = heavy + subs
    pi = [int(x) for x in E.perm("num", len(heavy))]
    ids = {v: 1 + pi[i] for i, v in enumerate(heavy)}
    for j, v in enumerate(subs):
        ids[v] = len(heavy) + 1 + j
    sub = nx.Graph()
    lab = {}
    for v in allv:
        if v in fam["heavy"]:
            el, h = fam["heavy"][v], fam["sub_h"][v] + (E.int("xh%d" % v, 0, 1) if fam["heavy"][v] == "C" and fam["sub_h"][v] < 3 else 0)
        else:
            el, h = E.choice("sel%d" % v, ["C", "O"]), E.int("sh%d" % v, 0, 1)
        lab[v] = (el, h)
    for v in sorted(allv, key=lambda x: ids[x]):
        sub.add_node(ids[v], element=lab[v][0], aromatic=False, hcount=lab[v][1], charge=0, atom_map=0, neighbors=[])
    for u, v, o in fam["sub_bonds"]:
        sub.add_edge(ids[u], ids[v], order=o)
    R = SynReactor(substrate=sub, template=rc, canonicaliser=NoCanon(), strategy="all")  # explicit_h=True, implicit_temp=False
    res = R.its_list
    _check_xh_results(E, res, sub, tmpl_its, dict(family=family, numbering=ids, n_results=len(res)))


def _check_xh_results(E, res, sub, tmpl_its, info):
    from synkit.Graph.ITS.its_decompose import its_decompose
    from synkit.Graph.Hyrogen._misc import h_to_implicit
    from vf.graphs import iso_formula

    want_cb = changed_bond_graph(tmpl_its)
    bad_a, bad_b, bad_c = [], [], []
    for r in res:
        l, p = its_decompose(r)
        li = fold_heavy_h(l)
        ok = set(li.nodes) == set(sub.nodes) and {frozenset(e) for e in li.edges} == {frozenset(e) for e in sub.edges}
        if not ok:
            bad_a.append(True)
        else:
            for v in sub.nodes:
                bad_a.append(NOT(EQ((li.nodes[v]["element"], li.nodes[v]["hcount"], li.nodes[v]["charge"]),
                                    (sub.nodes[v]["element"], sub.nodes[v]["hcount"], sub.nodes[v]["charge"]))))
            for u, v in sub.edges:
                bad_a.append(NOT(EQ(li[u][v]["order"], sub[u][v]["order"])))
        tot = lambda g: SUM([1 if d["element"] == "H" else d["hcount"] for _, d in g.nodes(data=True)])
        bad_b.append(NOT(EQ(tot(l), tot(p))))
        bad_b.append(NOT(EQ(SUM([d["charge"] for _, d in l.nodes(data=True)]), SUM([d["charge"] for _, d in p.nodes(data=True)]))))
        cb = changed_bond_graph(r)
        bad_c.append(NOT(iso_formula(cb, want_cb, lambda u, v: EQ(cb.nodes[u]["lab"], want_cb.nodes[v]["lab"]),
                                     lambda e, f: EQ(cb[e[0]][e[1]]["delta"], want_cb[f[0]][f[1]]["delta"]))))
    E.check(OR(bad_a), "reactant-side-is-the-unchanged-substrate", info)
    E.check(OR(bad_b), "elements-hydrogens-and-charge-are-conserved", info)
    E.check(OR(bad_c), "changed-bond-graph-is-isomorphic-to-the-templates", info)
    E.note(nontrivial=len(res) > 0)
    E.observe(len(res))


def fold_heavy_h(g):
    """hydrogen nodes bonded to a heavy atom become counts; H-H and free protons stay atoms (they are atoms of the
    substrate as well)"""
    g2 = g.copy()
    for v in [v for v, d in g.nodes(data=True) if d["element"] == "H"]:
        heavy = [w for w in g2.neighbors(v) if g2.nodes[w]["element"] != "H"]
        if heavy:
            g2.nodes[heavy[0]]["hcount"] = g2.nodes[heavy[0]]["hcount"] + 1
            g2.remove_node(v)
    return g2


def h_explicit_sym(E, n, nh, invert, free=False, kind="rc", dup=False):
    """a symbolic reaction with explicit centre hydrogens (harness.reactor_common.sym_xh_reaction); its centre template is
    applied (default reactor flags) to the reaction's own reactants with up to one extra implicit hydrogen per carbon -
    forwards - or, inverted, to its own products"""
    from synkit.Graph.ITS.its_construction import ITSConstruction
    from synkit.Graph.ITS.its_decompose import get_rc
    from synkit.Synthesis.Reactor.syn_reactor import SynReactor
    from harness.reactor_common import NoCanon, sym_xh_reaction, as_parsed

    G, H, hyd, att = sym_xh_reaction(E, n, nh, no_relay=True, free=free, omax=0 if free else 1)
    if free:  # the centre describes the reaction only if every atom that changes is in it
        rc0 = get_rc(ITSConstruction.ITSGraph(G, H))
        E.assume(AND([EQ(G.nodes[v]["charge"], H.nodes[v]["charge"]) for v in G.nodes if v not in rc0]))
    its = ITSConstruction.ITSGraph(G, H)
    rc = get_rc(its) if kind == "rc" else its
    sub = as_parsed(H if invert else G, hyd)
    for v in list(sub.nodes):
        if v <= n and int(E.int("xh%d" % v, 0, 1)):
            sub.nodes[v]["hcount"] = sub.nodes[v]["hcount"] + 1
    if dup:
        # a second copy of a one-atom molecule of the substrate (two waters): an equivalent site for that template atom
        lone = [v for v in sub.nodes if v <= n and sub.degree(v) == 0]
        E.assume(bool(lone))
        v = lone[-1]
        sub.add_node(n + nh + 1, **dict(sub.nodes[v]))
    res = SynReactor(substrate=sub, template=rc, canonicaliser=NoCanon(), strategy="all", invert=invert).its_list
    tmpl_its = ITSConstruction.ITSGraph(H, G) if invert else its
    _check_xh_results(E, res, sub, tmpl_its, dict(n=n, nh=nh, invert=invert, kind=kind, dup=dup, n_results=len(res),
                                                   attach={"%s%d" % k: v for k, v in att.items()}))


HARNESSES = {"wild": h_wild, "instance": h_instance, "explicit": h_explicit, "explicit_sym": h_explicit_sym}


def shards(tier, seed):
    sh = []
    q = tier == "quick"
    hosts = [(n, es) for n in (2, 3) for es in all_shapes(n)]
    for hn, he in hosts:
        for strategy in ("all", "comp", "bt"):
            for invert in (False, True):
                sh.append(dict(h="instance", params=dict(k=2, hn=hn, hedges=he, strategy=strategy, invert=invert)))
    for hn, he in hosts:
        if hn == 3:
            for strategy, invert in ((("all", False), ("bt", True)) if q else (("all", False), ("all", True), ("bt", False), ("comp", True))):
                sh.append(dict(h="instance", params=dict(k=3, hn=hn, hedges=he, strategy=strategy, invert=invert,
                                                         hmax_t=0 if q else 1, lite=q)))
    for he in all_shapes(4):
        if len(he) <= 3:
            for strategy in (("all",) if q else ("all", "comp", "bt")):
                sh.append(dict(h="instance", params=dict(k=2, hn=4, hedges=he, strategy=strategy, invert=False, lite=q)))
            if not q:
                sh.append(dict(h="instance", params=dict(k=3, hn=4, hedges=he, strategy="all", invert=False, hmax_t=0, lite=True)))
    # templates with a wildcard atom; substrates whose node ids have a gap
    for he, ids in (([[1, 2]], [1, 2]), ([[1, 2]], [2, 5]), ([[1, 2], [2, 3]], [1, 2, 4])) + (() if q else (([], [1, 3]), ([[1, 2]], [3, 1, 7]))):
        for strategy, invert in ((("all", False), ("bt", True)) if q else (("all", False), ("all", True), ("comp", False), ("bt", True))):
            sh.append(dict(h="wild", params=dict(hn=len(ids), hedges=he, strategy=strategy, invert=invert, ids=ids)))
    for fam in ("enol", "MPV", "ester", "deprot", "imine", "redam"):
        sh.append(dict(h="explicit", params=dict(family=fam)))
    for nh in ((1, 2) if q else (1, 2, 3)):
        for invert in (False, True):
            sh.append(dict(h="explicit_sym", params=dict(n=2, nh=nh, invert=invert)))
    for n, nh in ((2, 1), (1, 2), (1, 3)) + (() if q else ((2, 2),)):
        for invert in (False, True):
            sh.append(dict(h="explicit_sym", params=dict(n=n, nh=nh, invert=invert, free=True)))
    for invert in (False, True):
        sh.append(dict(h="explicit_sym", params=dict(n=1, nh=3, invert=invert, free=True, kind="its")))
        sh.append(dict(h="explicit_sym", params=dict(n=2, nh=3, invert=invert, dup=True)))
        if not q:
            sh.append(dict(h="explicit_sym", params=dict(n=2, nh=2, invert=invert, kind="its")))
            sh.append(dict(h="explicit_sym", params=dict(n=2, nh=3, invert=invert, kind="its")))
            sh.append(dict(h="explicit_sym", params=dict(n=2, nh=2, invert=invert, dup=True)))
    return sh
