"""C03 — every reaction proposed by rule application is a genuine instance of the rule."""
from __future__ import annotations

import itertools

from symx import AND, OR, NOT, EQ, GE, SUM, term_bool
from vf.graphs import all_shapes, pairs
from harness.reactor_common import (ALPHABET, sym_reaction, sym_substrate, balance_assumption, its_labels, reactor)  # noqa

PROPERTY = "C03"

META = dict(
    bounds=dict(
        quick="templates: reaction centres of all reactions on k=2 atoms (element in {C,O}, hcount per side 0..1, charge per "
              "side 0..1, bond order per side 0..2) that are hydrogen- and charge-balanced over the centre; substrates: all "
              "shapes on <=3 atoms (element {C,O}, hcount 0..2, charge 0..1, order 1..2, all symbolic; 3-atom substrates with hcount 0..1 and charge 0); forward and "
              "invert=True; strategies all/comp/bt; implicit-hydrogen mode (implicit_temp=True, explicit_h=False)",
        thorough="k=3 templates on substrates <=3 atoms, k=2 templates on substrates with 4 atoms",
    ),
    outside=["smarts_list / _to_smarts (RDKit) and everything said about output strings", "templates with wildcards, "
             "partial=True", "explicit-hydrogen mode with hydrogen atoms in the centre", "templates that are not balanced "
             "over their centre (a centre only contains atoms incident to a changed bond; clause b is claimed for balanced "
             "templates only)"],
    stubs=["NoCanon canonicaliser passed through the public canonicaliser= parameter (identity, constant signature)"],
    assumptions=["sum of hcount changes and of charge changes over the centre's atoms is zero",
                 "the template's left side is hashed by AutoEst, so those labels are realised per path; the right side and "
                 "all substrate labels stay symbolic"],
    rule="one evaluation = one symbolic path through SynRule construction, VF2 matching, de-duplication and gluing; "
         "non-trivial = at least one reaction is proposed",
)
WALL = dict(quick=170, thorough=1500)
MIN_PATHS = dict(quick=300, thorough=3000)


def judge_results(E, res, host, rc, ts, invert, info):
    Ls, Rs = ("G", "H") if not invert else ("H", "G")
    hn = list(host.nodes)
    tn = list(rc.nodes)
    bad_a, bad_b, bad_c = [], [], []
    for r in res:
        nl, el = its_labels(r)
        # (a) left side is the substrate, unchanged
        if set(nl) != set(hn):
            bad_a.append(True)
            continue
        for v in hn:
            d = host.nodes[v]
            bad_a.append(NOT(EQ(nl[v][0], (d["element"], d["aromatic"], d["hcount"], d["charge"]))))
        for x, y in pairs(hn):
            k = frozenset((x, y))
            ol = el[k][0] if k in el else 0
            want = host[x][y]["order"] if host.has_edge(x, y) else 0
            bad_a.append(NOT(EQ(ol, want)))
        # (b) conservation
        bad_b.append(NOT(EQ(SUM([nl[v][0][2] for v in hn]), SUM([nl[v][1][2] for v in hn]))))
        bad_b.append(NOT(EQ(SUM([nl[v][0][3] for v in hn]), SUM([nl[v][1][3] for v in hn]))))
        for v in hn:
            bad_b.append(NOT(EQ(nl[v][0][0], nl[v][1][0])))
        # (c) differs from the substrate by exactly the template's changes, at some placement of the template
        alts = []
        for img in itertools.permutations(hn, len(tn)):
            f = dict(zip(tn, img))
            inv = {x: u for u, x in f.items()}
            c = []
            for u in tn:
                d = host.nodes[f[u]]
                c.append(EQ(d["element"], ts["el"][u]))
                c.append(EQ(d["charge"], ts["c"][Ls, u]))
                c.append(GE(d["hcount"], ts["h"][Ls, u]))
            ok = True
            for u, v in pairs(tn):
                in_rc = rc.has_edge(u, v)
                lo = ts["o"][Ls, u, v] if in_rc else 0
                if host.has_edge(f[u], f[v]):
                    if in_rc:
                        c.append(OR(EQ(lo, 0), EQ(lo, host[f[u]][f[v]]["order"])))
                else:
                    c.append(EQ(lo, 0))
            for x, y in pairs(hn):
                k = frozenset((x, y))
                o = el.get(k, (0, 0))
                delta = o[1] - o[0]
                if x in inv and y in inv and rc.has_edge(inv[x], inv[y]):
                    u, v = inv[x], inv[y]
                    c.append(EQ(delta, ts["o"][Rs, u, v] - ts["o"][Ls, u, v]))
                else:
                    c.append(EQ(delta, 0))
            for x in hn:
                dh = nl[x][1][2] - nl[x][0][2]
                dc = nl[x][1][3] - nl[x][0][3]
                if x in inv:
                    u = inv[x]
                    c.append(EQ(dh, ts["h"][Rs, u] - ts["h"][Ls, u]))
                    c.append(EQ(dc, ts["c"][Rs, u] - ts["c"][Ls, u]))
                else:
                    c.append(EQ(dh, 0))
                    c.append(EQ(dc, 0))
                c.append(EQ(nl[x][1][1], nl[x][0][1]))  # aromatic flag untouched
            alts.append(AND(c))
        bad_c.append(NOT(OR(alts)))
    E.check(OR(bad_a), "reactant-side-is-the-unchanged-substrate", info)
    E.check(OR(bad_b), "elements-hydrogens-and-charge-are-conserved", info)
    E.check(OR(bad_c), "result-differs-by-exactly-the-template-changes", info)


def h_instance(E, k, hn, hedges, strategy, invert, hmax_t=1, lite=False):
    from synkit.Graph.ITS.its_construction import ITSConstruction
    from synkit.Graph.ITS.its_decompose import get_rc

    Gt, Ht, ts = sym_reaction(E, "t", k, hs=tuple(range(hmax_t + 1)), ids=[11 + i for i in range(k)])
    rc = get_rc(ITSConstruction.ITSGraph(Gt, Ht))
    if rc.number_of_nodes() == 0:
        E.note(nontrivial=False)
        return
    E.assume(balance_assumption(ts, list(rc.nodes)))
    host = sym_substrate(E, "s", hn, hedges, hs=(0, 1) if lite else (0, 1, 2), cs=(0,) if lite and hn >= 3 else (0, 1))
    R = reactor(host, rc, strategy, invert)
    res = R.its_list
    info = dict(template_nodes=sorted(rc.nodes), template_edges=sorted(map(sorted, rc.edges)), host=hedges,
                strategy=strategy, invert=invert, n_results=len(res))
    judge_results(E, res, host, rc, ts, invert, info)
    E.note(nontrivial=len(res) > 0)
    E.observe(len(res))


HARNESSES = {"instance": h_instance}


def shards(tier, seed):
    sh = []
    hosts = [(n, es) for n in (2, 3) for es in all_shapes(n)]
    i = 0
    for hn, he in hosts:
        for strategy in ("all", "comp", "bt"):
            for invert in (False, True):
                i += 1
                if tier == "quick" and hn == 3 and (i % 2):
                    continue
                sh.append(dict(h="instance", params=dict(k=2, hn=hn, hedges=he, strategy=strategy, invert=invert,
                                                         lite=(tier == "quick" and hn == 3))))
    if tier == "thorough":
        for hn, he in hosts:
            if hn == 3:
                for strategy in ("all", "bt"):
                    sh.append(dict(h="instance", params=dict(k=3, hn=hn, hedges=he, strategy=strategy, invert=False, hmax_t=1)))
        for he in all_shapes(4):
            if len(he) <= 3:
                sh.append(dict(h="instance", params=dict(k=2, hn=4, hedges=he, strategy="all", invert=False)))
    return sh
