"""C01 — the ITS encoding of a mapped reaction is lossless and invertible (graph level)."""
from __future__ import annotations

import itertools

import networkx as nx

from symx import AND, OR, NOT, EQ, ITE, term_bool
from vf.graphs import pairs

PROPERTY = "C01"
ELS = ["C", "H", "N", "O"]
ALPHABET = ELS + ["", "*"]
ORD = [0, 1, 1.5, 2, 3]

META = dict(
    bounds=dict(
        quick="all reactant/product graph pairs on a shared node set of n<=3 atoms (every bond order per side symbolic in "
              "{0,1,1.5,2,3}, 0 = absent; element in {C,H,N,O} shared per atom; aromatic, hcount 0..3, charge -1..1 "
              "symbolic per side), all H-side node insertion orders and edge orientations, balance_its/store in all 4 "
              "combinations, ignore_aromaticity on/off; n=4 with one insertion order under the sparse atom numbers 1,2,4,9; n=3 under 2,10,31",
        thorough="n=4 with solver-chosen insertion order and orientations, all flag combinations",
    ),
    outside=["rsmi_to_its / its_to_rsmi / SMILES re-rooting / fragment order / unmapped reactants and products: RDKit on "
             "both ends", "n >= 5 atoms", "reactions that create or delete atoms (not atom-balanced)",
             "the 'neighbors' slot of typesGH is compared as stored (default lists)"],
    stubs=[],
    assumptions=["atom-balanced mapped reaction: both sides have the same atoms with the same element"],
    rule="one evaluation = one symbolic path (bond-presence pattern x insertion order x orientation); labels and orders "
         "stay symbolic to the final query; non-trivial = at least one bond on each side",
)
WALL = dict(quick=150, thorough=1500)
MIN_PATHS = dict(quick=300, thorough=3000)


def build_reaction(E, n, h_order=None, orient=True, hmax=3, ids=None):
    nodes = list(ids) if ids else list(range(1, n + 1))
    el = {v: E.choice("el%d" % v, ELS) for v in nodes}
    lab = {}
    for side in "GH":
        for v in nodes:
            lab[side, v] = (el[v], E.bool("ar%s%d" % (side, v)), E.int("h%s%d" % (side, v), 0, hmax),
                            E.int("c%s%d" % (side, v), -1, 1))
    o = {(side, p): E.choice("o%s%d_%d" % ((side,) + p), ORD) for side in "GH" for p in pairs(nodes)}
    G, H = nx.Graph(), nx.Graph()
    for v in nodes:
        e, ar, h, c = lab["G", v]
        G.add_node(v, element=e, aromatic=ar, hcount=h, charge=c, atom_map=v)
    order_h = h_order or nodes
    for v in order_h:
        e, ar, h, c = lab["H", v]
        H.add_node(v, element=e, aromatic=ar, hcount=h, charge=c, atom_map=v)
    pres = {}
    for p in pairs(nodes):
        pres["G", p] = bool(o["G", p] > 0)
        if pres["G", p]:
            G.add_edge(p[0], p[1], order=o["G", p])
    hp = pairs(nodes)
    if orient:
        hp = list(reversed(hp))
    for p in hp:
        pres["H", p] = bool(o["H", p] > 0)
        if pres["H", p]:
            if orient and bool(E.bool("flip%d_%d" % p)):
                H.add_edge(p[1], p[0], order=o["H", p])
            else:
                H.add_edge(p[0], p[1], order=o["H", p])
    return nodes, lab, o, pres, G, H


def h_roundtrip(E, n, balance_its, store, ignore_aromaticity, entry, perm_h, orient, ids=None):
    from synkit.Graph.ITS.its_construction import ITSConstruction
    from synkit.Graph.ITS.its_decompose import its_decompose

    h_order = None
    if perm_h == "sym":
        h_order = [int(x) + 1 for x in E.perm("hord", n)]
    elif perm_h == "rev":
        h_order = list(range(n, 0, -1))
    if ids and h_order:
        h_order = [ids[i - 1] for i in h_order]
    nodes, lab, o, pres, G, H = build_reaction(E, n, h_order, orient, ids=ids)
    if entry == "ITSGraph":
        its = ITSConstruction.ITSGraph(G, H, ignore_aromaticity=ignore_aromaticity, balance_its=balance_its, store=store)
    else:
        its = ITSConstruction.construct(G, H, ignore_aromaticity=ignore_aromaticity, balance_its=balance_its, store=store)
    bad = []
    # (i) union of atoms and bonds, labels, order pairs, difference
    bad.append(set(its.nodes) != set(nodes))
    union = {p for p in pairs(nodes) if pres["G", p] or pres["H", p]}
    bad.append({tuple(sorted(e)) for e in its.edges} != union)
    if not any(b is True for b in bad):
        for v in nodes:
            t = its.nodes[v].get("typesGH")
            if not (isinstance(t, tuple) and len(t) == 2 and len(t[0]) >= 4 and len(t[1]) >= 4):
                bad.append(True)
                continue
            for k, side in enumerate("GH"):
                bad.append(NOT(EQ(tuple(t[k][:4]), lab[side, v])))
        for p in union:
            d = its[p[0]][p[1]]
            og = o["G", p] if pres["G", p] else 0
            oh = o["H", p] if pres["H", p] else 0
            op = d.get("order")
            if not (isinstance(op, tuple) and len(op) == 2):
                bad.append(True)
                continue
            bad.append(NOT(EQ(op[0], og)))
            bad.append(NOT(EQ(op[1], oh)))
            diff = og - oh
            if ignore_aromaticity:
                small = AND(term_bool(diff < 1), term_bool(diff > -1))
                want = ITE(small, 0, diff)
            else:
                want = diff
            bad.append(NOT(EQ(d.get("standard_order"), want)))
    E.check(OR(bad), "its-is-the-labelled-union", dict(n=n))
    # (ii) decomposition returns the two graphs
    g2, h2 = its_decompose(its)
    bad2 = []
    for side, g in (("G", g2), ("H", h2)):
        bad2.append(set(g.nodes) != set(nodes))
        want_edges = {p for p in pairs(nodes) if pres[side, p]}
        bad2.append({tuple(sorted(e)) for e in g.edges} != want_edges)
        if any(b is True for b in bad2):
            break
        for v in nodes:
            d = g.nodes[v]
            bad2.append(NOT(EQ((d.get("element"), d.get("aromatic"), d.get("hcount"), d.get("charge")), lab[side, v])))
        for p in want_edges:
            bad2.append(NOT(EQ(g[p[0]][p[1]].get("order"), o[side, p])))
    E.check(OR(bad2), "decompose-returns-both-sides", dict(n=n))
    E.note(nontrivial=any(pres["G", p] for p in pairs(nodes)) and any(pres["H", p] for p in pairs(nodes)))
    E.observe((sorted(tuple(sorted(e)) for e in its.edges), sorted(tuple(sorted(e)) for e in g2.edges),
               [its.nodes[v]["typesGH"][0][:4] for v in nodes]))


HARNESSES = {"roundtrip": h_roundtrip}


def shards(tier, seed):
    sh = []
    flags = list(itertools.product([False, True], [False, True]))
    for bal, store in flags:
        for ign in (False, True):
            sh.append(dict(h="roundtrip", params=dict(n=3, balance_its=bal, store=store, ignore_aromaticity=ign,
                                                       entry="construct", perm_h="sym", orient=True)))
    sh.append(dict(h="roundtrip", params=dict(n=3, balance_its=False, store=False, ignore_aromaticity=False,
                                               entry="ITSGraph", perm_h="sym", orient=True)))
    sh.append(dict(h="roundtrip", params=dict(n=2, balance_its=False, store=False, ignore_aromaticity=True,
                                               entry="ITSGraph", perm_h="sym", orient=True)))
    # sparse, non-contiguous and multi-digit atom numbers (nothing in the property ties the numbering to 1..N)
    sh.append(dict(h="roundtrip", params=dict(n=3, balance_its=False, store=False, ignore_aromaticity=False,
                                               entry="construct", perm_h="rev", orient=False, ids=[2, 10, 31])))
    if tier == "quick":
        sh.append(dict(h="roundtrip", params=dict(n=4, balance_its=False, store=False, ignore_aromaticity=False,
                                                   entry="ITSGraph", perm_h="rev", orient=False, ids=[1, 2, 4, 9])))
    else:
        for bal, store in flags:
            for ign in (False, True):
                sh.append(dict(h="roundtrip", params=dict(n=4, balance_its=bal, store=store, ignore_aromaticity=ign,
                                                           entry="construct", perm_h="rev", orient=True)))
        sh.append(dict(h="roundtrip", params=dict(n=4, balance_its=False, store=False, ignore_aromaticity=False,
                                                   entry="ITSGraph", perm_h="sym", orient=False)))
        sh.append(dict(h="roundtrip", params=dict(n=4, balance_its=False, store=False, ignore_aromaticity=False,
                                                   entry="construct", perm_h="rev", orient=False, ids=[1, 2, 4, 9])))
        sh.append(dict(h="roundtrip", params=dict(n=4, balance_its=False, store=False, ignore_aromaticity=False,
                                                   entry="construct", perm_h="rev", orient=False, ids=[3, 10, 11, 25])))
    return sh
