"""Shared builders and oracles for the rule-application checks (C03, C04, C05, C11 pruning clause, C14)."""
from __future__ import annotations

import itertools
import logging

import networkx as nx

logging.disable(logging.CRITICAL)  # the reactor logs every call at INFO

from symx import AND, OR, NOT, EQ, GE, SUM, term_bool
from vf.graphs import pairs

ALPHABET = ["C", "O", "H", "N", "*", ""]


class NoCanon:
    """Canonicaliser handed in through the public `canonicaliser=` parameter: the canonical graph is the graph itself and
    the signature is a fresh token per graph object (no two distinct objects ever compare equal through it).  Canonical
    form and signature are not inputs to rule application; this avoids SHA/f-string realisation of every template label.
    Code that (rightly or wrongly) identifies rules or graphs *through signatures* simply never gets a hit under this stub;
    the `history` harness of C05 runs with the real canonicaliser for that reason."""

    backend = "none"

    _counter = itertools.count()

    def __init__(self):
        self._tok = {}
        self._keep = []

    def make_canonical_graph(self, g):
        return g

    _make_canonical_graph = make_canonical_graph

    def canonical_signature(self, g):
        k = id(g)
        if k not in self._tok:
            self._tok[k] = "nocanon-%d" % next(NoCanon._counter)
            self._keep.append(g)
        return self._tok[k]

    def canonicalise_graph(self, g):
        raise NotImplementedError


def sym_reaction(E, pre, n, els=("C", "O"), hs=(0, 1, 2), cs=(0, 1), orders=(0, 1, 2), ids=None, same_charge=False):
    """Balanced-candidate reaction on n atoms: per atom one element, per side hcount/charge, per pair and side an order.
    Returns (G, H, sym) with sym holding the symbols."""
    ids = ids or list(range(1, n + 1))
    sym = dict(el={}, h={}, c={}, o={})
    G, H = nx.Graph(), nx.Graph()
    for k, v in enumerate(ids):
        el = E.choice("%sel%d" % (pre, k), list(els)) if len(els) > 1 else els[0]
        sym["el"][v] = el
        for side, g in (("G", G), ("H", H)):
            h = E.choice("%sh%s%d" % (pre, side, k), list(hs)) if len(hs) > 1 else hs[0]
            if side == "H" and same_charge:
                c = sym["c"]["G", v]
            else:
                c = E.choice("%sc%s%d" % (pre, side, k), list(cs)) if len(cs) > 1 else cs[0]
            sym["h"][side, v], sym["c"][side, v] = h, c
            g.add_node(v, element=el, aromatic=False, hcount=h, charge=c, atom_map=v)
    for a, b in pairs(list(range(len(ids)))):
        u, v = ids[a], ids[b]
        for side, g in (("G", G), ("H", H)):
            o = E.choice("%so%s%d_%d" % (pre, side, a, b), list(orders))
            sym["o"][side, u, v] = sym["o"][side, v, u] = o
            if bool(o > 0):
                g.add_edge(u, v, order=o)
    return G, H, sym


def balance_assumption(sym, nodes):
    """sum of hcount changes = 0 and sum of charge changes = 0 over `nodes`."""
    dh = SUM([sym["h"]["H", v] - sym["h"]["G", v] for v in nodes])
    dc = SUM([sym["c"]["H", v] - sym["c"]["G", v] for v in nodes])
    return AND(EQ(dh, 0), EQ(dc, 0))


def sym_xh_reaction(E, n, nh, omax=1, els=("C", "O"), no_relay=False, free=False):
    """a reaction whose centre hydrogens are all explicit: n heavy atoms (symbolic element, implicit count equal on both
    sides, bond orders per side) and nh explicit hydrogens, each bonded on either side to a solver-chosen heavy atom or
    (the first two) to each other (H-H); at least one hydrogen changes its partner.  free=True: a hydrogen may also be
    free on a side (-1), as a proton or a hydride (solver-chosen), the heavy atoms then carry charges in {-1,0,1} per side
    and the total charge is conserved.  Returns (G, H, hyd, att)."""
    G, H, rs = sym_reaction(E, "r", n, els=els, hs=(0, 1), cs=(-1, 0, 1) if free else (0,), orders=tuple(range(omax + 1)))
    nodes = list(G.nodes)
    E.assume(AND([EQ(rs["h"]["G", v], rs["h"]["H", v]) for v in nodes]))
    hyd = [n + 1 + j for j in range(nh)]
    att = {}
    heavy_opts = list(range(1, n + 1))
    q = {hv: (int(E.choice("q%d" % j, [1, -1])) if free else 0) for j, hv in enumerate(hyd)}
    for side, g in (("G", G), ("H", H)):
        for j, hv in enumerate(hyd):
            g.add_node(hv, element="H", aromatic=False, hcount=0, charge=0, atom_map=hv)
            # 0 = bonded to the other hydrogen of the first pair (H-H); a third hydrogen always sits on a heavy atom
            att[side, hv] = int(E.choice("a%s%d" % (side, j), heavy_opts + ([0] if nh >= 2 and j < 2 else [])
                                         + ([-1] if free else [])))
        if nh >= 2:
            E.assume((att[side, hyd[0]] == 0) == (att[side, hyd[1]] == 0))
        for hv in hyd:
            if att[side, hv] == 0:
                g.add_edge(hyd[0], hyd[1], order=1)
            elif att[side, hv] == -1:
                g.nodes[hv]["charge"] = q[hv]
            else:
                g.add_edge(att[side, hv], hv, order=1)
    if free:
        E.assume(any(att[side, hv] == -1 for side in ("G", "H") for hv in hyd))
        E.assume(all(q[hv] == 1 or any(att[side, hv] == -1 for side in ("G", "H")) for hv in hyd))  # q unused => fixed
        tot = lambda side, g: SUM([rs["c"][side, v] for v in nodes]) + sum(g.nodes[hv]["charge"] for hv in hyd)
        E.assume(EQ(tot("G", G), tot("H", H)))
    E.assume(any(att["G", hv] != att["H", hv] for hv in hyd))
    if nh >= 2:  # the first two hydrogens are interchangeable: one representative per swap
        E.assume((att["G", hyd[0]], att["H", hyd[0]], q[hyd[0]]) <= (att["G", hyd[1]], att["H", hyd[1]], q[hyd[1]]))
    if no_relay:
        # the library counts the hydrogens on a heavy atom, it does not tell them apart: a reaction in which an atom gives
        # one hydrogen away and receives another one is rendered by its net effect.  Exclude those where the changed
        # bonds themselves are compared.
        for v in heavy_opts:
            loses = any(att["G", hv] == v and att["H", hv] != v for hv in hyd)
            gains = any(att["H", hv] == v and att["G", hv] != v for hv in hyd)
            E.assume(not (loses and gains))
    return G, H, hyd, att


def as_parsed(g, hyd):
    """the molecule as an unmapped SMILES gives it: hydrogens on heavy atoms are counts, H-H and a free proton are atoms"""
    g2 = g.copy()
    for v in hyd:
        heavy_nb = [w for w in g2.neighbors(v) if g2.nodes[w]["element"] != "H"]
        if heavy_nb:
            g2.nodes[heavy_nb[0]]["hcount"] = g2.nodes[heavy_nb[0]]["hcount"] + 1
            g2.remove_node(v)
    for v in g2.nodes:
        g2.nodes[v]["atom_map"] = 0
        g2.nodes[v]["neighbors"] = []
    return g2


def sym_substrate(E, pre, n, edges, els=("C", "O"), hs=(0, 1, 2), cs=(0, 1), orders=(1, 2), ids=None):
    ids = ids or list(range(1, n + 1))
    g = nx.Graph()
    for k, v in enumerate(ids):
        el = E.choice("%sel%d" % (pre, k), list(els)) if len(els) > 1 else els[0]
        h = E.choice("%sh%d" % (pre, k), list(hs)) if len(hs) > 1 else hs[0]
        c = E.choice("%sc%d" % (pre, k), list(cs)) if len(cs) > 1 else cs[0]
        g.add_node(v, element=el, aromatic=False, hcount=h, charge=c, atom_map=0, neighbors=[])
    for a, b in edges:
        o = E.choice("%so%d_%d" % (pre, a, b), list(orders)) if len(orders) > 1 else orders[0]
        g.add_edge(ids[a - 1], ids[b - 1], order=o)
    return g


def plain_substrate(g):
    """what smiles_to_graph would hand to the reactor: element, aromatic, hcount, charge; no atom maps."""
    s = nx.Graph()
    for v, d in g.nodes(data=True):
        s.add_node(v, element=d["element"], aromatic=d.get("aromatic", False), hcount=d["hcount"], charge=d["charge"],
                   atom_map=0, neighbors=[])
    for u, v, d in g.edges(data=True):
        s.add_edge(u, v, order=d["order"])
    return s


def its_labels(r):
    """node -> ((el,ar,h,c) left, (el,ar,h,c) right); pair -> (order left, order right)"""
    nl = {}
    for v, d in r.nodes(data=True):
        t = d["typesGH"]
        nl[v] = (tuple(t[0][:4]), tuple(t[1][:4]))
    el = {}
    for u, v, d in r.edges(data=True):
        o = d["order"]
        el[frozenset((u, v))] = (o[0], o[1])
    return nl, el


def its_iso(a, b):
    """formula: ITS graphs a and b are isomorphic on typesGH (4 slots per side) and order pairs.  The bond *structure* is
    concrete (glued results and constructed ITS graphs never carry a (0, 0) bond), labels and orders may be symbolic."""
    na, ea = its_labels(a)
    nb, eb = its_labels(b)
    if len(na) != len(nb) or len(ea) != len(eb):
        return False
    va, vb = list(na), list(nb)
    dega = sorted(sum(1 for k in ea if v in k) for v in va)
    degb = sorted(sum(1 for k in eb if v in k) for v in vb)
    if dega != degb:
        return False
    # candidate images per node: same degree and a label that is not concretely different; then a backtracking search
    # over adjacency-consistent assignments (each complete assignment contributes one disjunct)
    nbr_a = {v: [tuple(k - {v})[0] for k in ea if v in k] for v in va}
    deg_b = {v: sum(1 for k in eb if v in k) for v in vb}
    cand = {}
    for v in va:
        cs = []
        for w in vb:
            if len(nbr_a[v]) != deg_b[w]:
                continue
            c = EQ(na[v], nb[w])
            if c is False:
                continue
            cs.append((w, c))
        if not cs:
            return False
        cand[v] = cs
    order = sorted(va, key=lambda v: len(cand[v]))
    alts = []
    found_true = [False]

    def rec(i, f, conj):
        if found_true[0]:
            return
        if i == len(order):
            c = AND(conj)
            if c is True:
                found_true[0] = True
            elif c is not False:
                alts.append(c)
            return
        v = order[i]
        for w, c in cand[v]:
            if w in f.values():
                continue
            extra = [] if c is True else [c]
            ok = True
            for u in nbr_a[v]:
                if u in f:
                    k2 = frozenset((f[u], w))
                    if k2 not in eb:
                        ok = False
                        break
                    ce = EQ(ea[frozenset((u, v))], eb[k2])
                    if ce is False:
                        ok = False
                        break
                    if ce is not True:
                        extra.append(ce)
            if not ok:
                continue
            f[v] = w
            rec(i + 1, f, conj + extra)
            del f[v]

    rec(0, {}, [])
    if found_true[0]:
        return True
    return OR(alts)


def _side_graphs(its):
    """the two unmapped sides of an ITS: per side a graph of the atoms with (element, hydrogens, charge) and the bonds
    present on that side.  A hydrogen node bonded to a heavy atom on that side is counted on the heavy atom (H-H and a
    free proton stay atoms), so how a result writes its hydrogens does not matter."""
    nl, el = its_labels(its)
    out = []
    for s in (0, 1):
        g = nx.Graph()
        for v, t in nl.items():
            g.add_node(v, lab=(t[s][0], t[s][2], t[s][3]))
        for k, o in el.items():
            u, v = tuple(k)
            if not (isinstance(o[s], (int, float)) and o[s] == 0):
                g.add_edge(u, v, order=o[s])
        for v in list(g.nodes):
            if g.nodes[v]["lab"][0] != "H":
                continue
            heavy = [w for w in g.neighbors(v) if g.nodes[w]["lab"][0] != "H"]
            if heavy:
                w = heavy[0]
                e, h, c = g.nodes[w]["lab"]
                g.nodes[w]["lab"] = (e, h + 1, c)
                g.remove_node(v)
        out.append(g)
    return out


def sides_iso(a, b):
    """formula: a and b have isomorphic unmapped reactant sides and isomorphic unmapped product sides (what a comparison
    of standardised, atom-map-free reaction SMILES sees)"""
    from vf.graphs import iso_formula

    conj = []
    for ga, gb in zip(_side_graphs(a), _side_graphs(b)):
        conj.append(iso_formula(ga, gb, lambda u, v: EQ(ga.nodes[u]["lab"], gb.nodes[v]["lab"]),
                                lambda e, f: EQ(ga[e[0]][e[1]]["order"], gb[f[0]][f[1]]["order"])))
        if conj[-1] is False:
            return False
    return AND(conj)


def regenerated(E, res, want, norm=None):
    """formula: `want` is among the results.  Decided on the mapped ITS first (isomorphism); only if that can fail on this
    path is the weaker reading added that the property's observation point (standardised unmapped SMILES) allows: some
    result has the same unmapped reactants and products."""
    rs = [norm(r) for r in res] if norm else list(res)
    strict = OR([its_iso(r, want) for r in rs])
    if strict is True or not E.feasible(NOT(strict)):
        return True
    return OR(strict, OR([sides_iso(r, want) for r in rs]))


def its_equal_sets(A, B):
    """formula: lists of ITS graphs A and B are equal as sets up to isomorphism."""
    M = [[its_iso(a, b) for b in B] for a in A]
    conj = [OR(row) for row in M]
    for j in range(len(B)):
        conj.append(OR([M[i][j] for i in range(len(A))]))
    return AND(conj)


def its_same(a, b, node_map=None):
    """formula: a and b are the same ITS under the given node correspondence a-node -> b-node (identity by default)."""
    na, ea = its_labels(a)
    nb, eb = its_labels(b)
    f = node_map or {v: v for v in na}
    if len(na) != len(nb) or len(ea) != len(eb) or any(f.get(v) not in nb for v in na):
        return False
    conj = []
    for k in ea:
        u, v = tuple(k)
        if frozenset((f[u], f[v])) not in eb:
            return False
    for v in na:
        c = EQ(na[v], nb[f[v]])
        if c is False:
            return False
        conj.append(c)
    for k, oa in ea.items():
        u, v = tuple(k)
        conj.append(EQ(oa, eb[frozenset((f[u], f[v]))]))
    return AND(conj)


def same_sets(A, B, node_map=None):
    M = [[its_same(a, b, node_map) for b in B] for a in A]
    conj = [OR(row) for row in M]
    for j in range(len(B)):
        conj.append(OR([M[i][j] for i in range(len(A))]))
    return AND(conj)


def check_sets_equal(E, A, B, clause, info, node_map=None):
    """two-stage: the cheap formula (same reactions under the known node correspondence) first; only if that can fail on
    this path the full up-to-isomorphism formula decides."""
    if not E.feasible(NOT(same_sets(A, B, node_map))):
        E.check(False, clause, info)
        return
    E.check(NOT(its_equal_sets(A, B)), clause, info)


def check_subset(E, A, B, clause, info):
    cheap = AND([OR([its_same(a, b) for b in B]) for a in A])
    if not E.feasible(NOT(cheap)):
        E.check(False, clause, info)
        return
    E.check(NOT(its_subset(A, B)), clause, info)


def its_subset(A, B):
    return AND([OR([its_iso(a, b) for b in B]) for a in A])


def reactor(substrate, template, strategy="all", invert=False, real_canon=False):
    from synkit.Synthesis.Reactor.syn_reactor import SynReactor

    nc = None if real_canon else NoCanon()
    return SynReactor(substrate=substrate, template=template, invert=invert, canonicaliser=nc, explicit_h=False,
                      implicit_temp=True, strategy=strategy)


# ------------------------------------------------------------------------------------------- concrete template families
FAMILIES = {
    # centre atoms are carbon with fixed labels (identical typesGH where the chemistry is symmetric); substituent atoms hang
    # off the centre through unchanged single bonds and carry symbolic labels, so that placements related by a symmetry
    # of the *centre* are distinguishable on the substrate
    "2+2": dict(centre=[1, 2, 3, 4], h={1: 1, 2: 1, 3: 1, 4: 1},
                G=[(1, 2, 2), (3, 4, 2)], H=[(1, 2, 1), (3, 4, 1), (2, 3, 1), (1, 4, 1)], subs=[(5, 1), (6, 3)]),
    # the same centre with the substituents on neighbouring atoms: backwards (cycloreversion) the two ways of opening the
    # ring give different products
    "2+2-adj": dict(centre=[1, 2, 3, 4], h={1: 1, 2: 1, 3: 1, 4: 1},
                    G=[(1, 2, 2), (3, 4, 2)], H=[(1, 2, 1), (3, 4, 1), (2, 3, 1), (1, 4, 1)], subs=[(5, 1), (6, 2)]),
    "DA": dict(centre=[1, 2, 3, 4, 5, 6], h={1: 1, 2: 1, 3: 1, 4: 1, 5: 1, 6: 1},
               G=[(1, 2, 2), (2, 3, 1), (3, 4, 2), (5, 6, 2)], H=[(1, 2, 1), (2, 3, 2), (3, 4, 1), (4, 5, 1), (5, 6, 1), (1, 6, 1)],
               subs=[(7, 1), (8, 5)]),
    "ene-shift": dict(centre=[1, 2, 3], h={1: 0, 2: 0, 3: 0},
                      G=[(1, 2, 2), (2, 3, 1)], H=[(1, 2, 1), (2, 3, 2)], subs=[(4, 1), (5, 3)]),
}


def family_reaction(E, name, sub_els=("C", "O"), sub_hs=(0, 1)):
    """(G, H) of a concrete reaction family with symbolic substituents; node ids 1..n, atom_map = id."""
    fam = FAMILIES[name]
    G, H = nx.Graph(), nx.Graph()
    for v in fam["centre"]:
        for g in (G, H):
            g.add_node(v, element="C", aromatic=False, hcount=fam["h"][v], charge=0, atom_map=v)
    for s, at in fam["subs"]:
        el = E.choice("sub%d_el" % s, list(sub_els))
        h = E.choice("sub%d_h" % s, list(sub_hs))
        for g in (G, H):
            g.add_node(s, element=el, aromatic=False, hcount=h, charge=0, atom_map=s)
            g.add_edge(s, at, order=1)
    for u, v, o in fam["G"]:
        G.add_edge(u, v, order=o)
    for u, v, o in fam["H"]:
        H.add_edge(u, v, order=o)
    return G, H
