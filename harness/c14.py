"""C14 — batching and caching are operational only: results never change (serial part)."""
from __future__ import annotations

PROPERTY = "C14"
ALPHABET = ["O", "N", "C", "*", "", "x"]

META = dict(
    bounds=dict(
        quick="result cache: k<=3 batch entries (each a fresh two-atom substrate graph with solver-chosen charge and hcount - look-alikes -, whose lifetime ends before the next begins) "
              "x 1 (thorough 2) long-lived rules, cache sizes 1, 2 and unbounded, forward and backward; id() values of the substrate "
              "objects are solver variables under CPython's contract (objects alive together have distinct ids), contents "
              "are solver variables too; BatchReactor.fit (serial) on every order of a 4-entry batch with look-alike "
              "substrates, cache on/off/tiny, dedupe on/off, against single-entry runs; batched versus one-shot clustering incl. an existing representative library in another order (five lists of 3-4 graphs, harness shared with C13; one of them with a solver-chosen, possibly empty pre-grouping attribute that is not determined by the graph)",
        thorough="k<=4 entries x 3 rules",
    ),
    outside=["loky / ProcessPoolExecutor scheduling itself (which worker runs which task, pickled copies of the reactor and "
             "of its cache in worker processes)",
             "AAMValidator.validate_smiles, dicts_balance_check, SynCRN.build(parallel=True): OS processes and RDKit",
             "parallel validation / balance checking / network expansion"],
    stubs=["workers harness: joblib.Parallel as imported by synkit.Synthesis.Reactor.batch_reactor is replaced by a stand-in "
           "that runs the submitted tasks in the calling process and returns their results in submission order "
           "(joblib's contract); entry_n_jobs in 1..3, rule_n_jobs in 1..4, parallel_rules, allow_nested, cache, dedupe, "
           "direction and batch order are solver-chosen, 2 entries (thorough 3) x 3 rules",
           "module attribute `id` of synkit.Synthesis.Reactor.batch_reactor: returns the modelled address of the object "
           "(solver-chosen for substrates, distinct constants for rules)",
           "_RuleApplier._execute overridden in a subclass by an uninterpreted tag of (substrate content, rule content, "
           "direction): the reactor itself is C03's subject; __call__ (the cache logic) is the real inherited code"],
    assumptions=["CPython id() contract: two objects whose lifetimes overlap have different ids, otherwise unconstrained",
                 "BatchReactor.fit part runs RDKit for real on fixed SMILES in a solver-chosen order"],
    rule="one evaluation = one assignment of addresses/contents/cache size, or one batch order; non-trivial = some address "
         "is re-used or the batch order is not the identity",
)
WALL = dict(quick=170, thorough=1500)
MIN_PATHS = dict(quick=100, thorough=500)


def mk_substrate(el, charge, hcount, order):
    """a two-atom substrate graph; what it *is* (its content) is the tuple of its labels"""
    import networkx as nx

    g = nx.Graph()
    g.add_node(1, element=el, aromatic=False, hcount=hcount, charge=charge, atom_map=0)
    g.add_node(2, element="C", aromatic=False, hcount=3, charge=0, atom_map=0)
    g.add_edge(1, 2, order=order)
    return g


def content(g):
    return (tuple(sorted((v, d["element"], d["charge"], d["hcount"], d["aromatic"]) for v, d in g.nodes(data=True))),
            tuple(sorted((min(u, v), max(u, v), d["order"]) for u, v, d in g.edges(data=True))))


def h_cache(E, k, r):
    import networkx as nx

    from synkit.Synthesis.Reactor import batch_reactor as br

    class Applier(br._RuleApplier):
        __slots__ = ()

        def _execute(self, substrate, rule, inv):
            return [("result-of", content(substrate), rule.graph["name"], bool(inv))]

    csize = int(E.choice("cache_max", [1, 2, 1000]))
    inv = bool(E.bool("invert"))
    rules = []
    for j in range(r):
        R = nx.Graph(name="rule%d" % j)
        R.add_node(1, element="C")
        rules.append(R)
    addr = {}
    for j, R in enumerate(rules):
        addr[id(R)] = 1000 + j
    old = br.__dict__.get("id")
    real_id = id
    br.id = lambda o: addr[real_id(o)]
    applier = Applier("syn", strategy="bt", explicit_h=True, implicit_temp=False, cache_enabled=True, cache_maxsize=csize)
    try:
        import gc
        import weakref

        from symx import AND, NOT, EQ

        reused = False
        seen_addr = {}
        prev = []  # (weak reference, modelled address) of earlier substrates
        for i in range(k):
            # look-alike substrates: same skeleton and atom order, labels chosen by the solver
            el = "O"
            ch = int(E.int("charge%d" % i, -1, 0))
            hc = int(E.int("hcount%d" % i, 0, 1))
            od = 1
            a_sym = E.int("addr%d" % i, 0, k - 1)
            # CPython contract: an address is handed out again only after its object has died; objects that something
            # (e.g. a cache entry) still references keep theirs
            gc.collect()  # networkx graphs are in reference cycles with their cached views: only the collector frees them
            alive = [x for w, x in prev if w() is not None]
            E.assume(AND([NOT(EQ(a_sym, x)) for x in alive]))
            a = int(a_sym)
            S = mk_substrate(el, ch, hc, od)
            prev.append((weakref.ref(S), a))
            addr[real_id(S)] = a
            if a in seen_addr and seen_addr[a] != content(S):
                reused = True
            seen_addr[a] = content(S)
            for R in rules:
                got = applier(S, R, inv)
                want = [("result-of", content(S), R.graph["name"], inv)]
                if E.check(got != want, "cached-call-returns-the-result-of-other-arguments",
                           dict(entry=i, got=got, want=want, cache_max=csize)):
                    return
            del addr[real_id(S)]
            del S
    finally:
        if old is None:
            del br.id
        else:
            br.id = old
    E.note(nontrivial=reused)
    E.observe(None)


# the repeated entry (positions 0 and 2) is one on which two rules fire, the second of them not the first in the list
ENTRIES = ["CCl.CBr.O", "CBr.O", "CCl.CBr.O", "CCl.[OH-]", "CO"]
RULES = ["[C:2][Cl:3].[O:4][H:6]>>[C:2][O:4].[Cl:3][H:6]", "[C:1][Br:2].[O:3][H:4]>>[C:1][O:3].[Br:2][H:4]",
         "[C:1][Cl:2].[OH-:3]>>[C:1][OH:3].[Cl-:2]"]
_single = {}


def h_batch(E, n):
    from synkit.Synthesis.Reactor.batch_reactor import BatchReactor

    order = [int(x) for x in E.perm("order", n)]
    cache = str(E.choice("cache", [0, 1, 2]))
    cache_kw = {"0": dict(cache_enabled=False), "1": dict(cache_enabled=True), "2": dict(cache_enabled=True, cache_maxsize=1)}[cache]
    dedupe = bool(E.bool("dedupe"))
    inv = bool(E.bool("invert"))
    data = [ENTRIES[i] for i in order]
    out = BatchReactor(data, enable_logging=False, dedupe=dedupe, **cache_kw).fit(RULES, invert=inv)
    key = "syn_bw" if inv else "syn_fw"
    bad = len(out) != n
    for pos, i in enumerate(order):
        sk = (ENTRIES[i], dedupe, inv)
        if sk not in _single:
            _single[sk] = BatchReactor([ENTRIES[i]], enable_logging=False, dedupe=dedupe, cache_enabled=False).fit(RULES, invert=inv)[0]
        if not bad and (out[pos].get(key) != _single[sk].get(key) or out[pos].get("count") != _single[sk].get("count")):
            bad = True
    E.check(bad, "batch-entry-output-differs-from-single-entry-output", dict(order=order, cache=cache, dedupe=dedupe, invert=inv))
    E.note(nontrivial=order != sorted(order))
    E.observe([o.get("count") for o in out])


class _InOrderParallel:
    """stand-in for joblib.Parallel: runs the submitted (function, args, kwargs) tasks in the calling process and returns
    their results in submission order, which is joblib's documented contract; which worker runs what is not modelled."""

    def __init__(self, n_jobs=None, **kw):
        self.n_jobs = n_jobs

    def __call__(self, tasks):
        return [f(*a, **k) for f, a, k in tasks]


def h_workers(E, ids):
    """BatchReactor.fit with solver-chosen worker counts and parallelism switches: how the work is cut into tasks and how
    the task results are merged is the real code, the scheduler is the in-order stand-in above."""
    from synkit.Synthesis.Reactor import batch_reactor as br

    n = len(ids)
    order = [int(x) for x in E.perm("order", n)]
    cache = bool(E.bool("cache"))
    dedupe = bool(E.bool("dedupe"))
    inv = bool(E.bool("invert"))
    ej = int(E.choice("entry_n_jobs", [1, 2, 3]))
    rj = int(E.choice("rule_n_jobs", [1, 2, 3, 4]))
    pr = bool(E.bool("parallel_rules"))
    nested = bool(E.bool("allow_nested"))
    data = [ENTRIES[ids[i]] for i in order]
    old = br.Parallel
    br.Parallel = _InOrderParallel
    try:
        out = br.BatchReactor(data, enable_logging=False, dedupe=dedupe, cache_enabled=cache, entry_n_jobs=ej, rule_n_jobs=rj,
                              parallel_rules=pr, allow_nested=nested).fit(RULES, invert=inv)
    finally:
        br.Parallel = old
    key = "syn_bw" if inv else "syn_fw"
    bad = len(out) != n
    for pos, i in enumerate(order):
        sk = (ENTRIES[ids[i]], dedupe, inv)
        if sk not in _single:
            _single[sk] = br.BatchReactor([ENTRIES[ids[i]]], enable_logging=False, dedupe=dedupe, cache_enabled=False).fit(RULES, invert=inv)[0]
        if not bad and (out[pos].get(key) != _single[sk].get(key) or out[pos].get("count") != _single[sk].get("count")):
            bad = True
    E.check(bad, "worker-counts-change-the-output", dict(order=order, cache=cache, dedupe=dedupe, invert=inv, entry_n_jobs=ej,
                                                         rule_n_jobs=rj, parallel_rules=pr, allow_nested=nested))
    E.note(nontrivial=ej > 1 or (pr and rj > 1))
    E.observe([o.get("count") for o in out])


def h_cluster(E, shapes, use_attr, **kw):
    """batched versus one-shot clustering, incl. an existing library held in another order (harness shared with C13)"""
    from harness.c13 import h_cluster as hc

    hc(E, shapes, use_attr, **kw)


HARNESSES = {"cache": h_cache, "batch": h_batch, "workers": h_workers, "cluster": h_cluster}


def shards(tier, seed):
    sh = [dict(h="cache", params=dict(k=2, r=1)), dict(h="cache", params=dict(k=3, r=1)), dict(h="batch", params=dict(n=4)), dict(h="workers", params=dict(ids=[3, 1])),
          dict(h="cluster", params=dict(shapes=["K2", "P3", "E2"], use_attr=True)),
          dict(h="cluster", params=dict(shapes=["K2", "E2", "K2"], use_attr=False)),
          dict(h="cluster", params=dict(shapes=["K2", "K2", "K2"], use_attr=True)),
          dict(h="cluster", params=dict(shapes=["K2", "K2", "K2", "K2"], use_attr=True, carbon_only=True)),
          dict(h="cluster", params=dict(shapes=["K2", "K2", "K2"], use_attr=False, free_attr=True, carbon_only=True))]
    if tier == "thorough":
        sh += [dict(h="cache", params=dict(k=3, r=2)), dict(h="batch", params=dict(n=5)), dict(h="workers", params=dict(ids=[0, 3, 4]))]
    return sh
