"""C12 — maximum common subgraph results are valid and of maximum size."""
from __future__ import annotations

import itertools

from symx import AND, OR, NOT, EQ
from vf.graphs import all_shapes, sym_mol

PROPERTY = "C12"
ALPHABET = ["C", "N", "O", "*"]

META = dict(
    bounds=dict(
        quick="all pairs of graphs (connected or not) with <=3 nodes each, both orders of the arguments, plus 4x3 and 3x4 "
              "pairs with <=3 bonds and the 4-ring against the 4-chain; one matcher object re-used for three searches in a row; three pairs with the first graph stored in reversed atom order; element in {C,N}, bond order in {1,2}; mcs=True and mcs=False; both MCSMatcher "
              "copies (Graph/Matcher and Graph/MTG)",
        thorough="all pairs up to 4x4 nodes (<=4 bonds)",
    ),
    outside=["graphs > 4 nodes", "mcs_mol / find_rc_mapping component-wise modes", "prune_wc / prune_automorphisms options"],
    stubs=[],
    assumptions=["bond orders are cast by float() inside the edge matcher, so they are realised per path (solver-driven "
                 "enumeration); elements stay symbolic",
                 "node_attrs=['element'] (default), edge_attrs=['order'] (default)"],
    rule="one evaluation = one symbolic path; non-trivial = a common subgraph with at least 2 atoms exists on the path",
)
WALL = dict(quick=170, thorough=1500)
MIN_PATHS = dict(quick=300, thorough=3000)


def common_induced(A, B, f):
    """formula: partial injection f (dict A-node -> B-node) is a common induced subgraph with equal labels/orders."""
    conj = []
    for u, v in f.items():
        conj.append(EQ(A.nodes[u].get("element"), B.nodes[v].get("element")))
    for u, v in itertools.combinations(list(f), 2):
        ea, eb = A.has_edge(u, v), B.has_edge(f[u], f[v])
        if ea != eb:
            return False
        if ea:
            conj.append(EQ(A[u][v].get("order"), B[f[u]][f[v]].get("order")))
    return AND(conj)


def partial_injections(an, bn, k):
    for dom in itertools.combinations(an, k):
        for img in itertools.permutations(bn, k):
            yield dict(zip(dom, img))


def h_mcs(E, an, aedges, bn, bedges, impl, arev=False):
    if impl == "matcher":
        from synkit.Graph.Matcher.mcs_matcher import MCSMatcher
    else:
        from synkit.Graph.MTG.mcs_matcher import MCSMatcher
    A, _ = sym_mol(E, "A", an, [tuple(e) for e in aedges], elements=("C", "N"), hcounts=(0,), orders=(1, 2))
    B, _ = sym_mol(E, "B", bn, [tuple(e) for e in bedges], elements=("C", "N"), hcounts=(0,), orders=(1, 2),
                   node_ids=[11 + i for i in range(bn)])
    if arev:
        # the first graph stored in another atom order than its ids (a relabelled / re-assembled copy)
        from vf.graphs import relabel

        A = relabel(A, {v: v for v in A.nodes}, order=list(reversed(list(A.nodes))))
    info = dict(a=aedges, b=bedges, impl=impl, arev=arev)
    sizes = {}
    for mcs in (True, False):
        m = MCSMatcher()
        m.find_common_subgraph(A, B, mcs=mcs)
        if impl == "matcher":
            g12 = m.get_mappings("G1_to_G2")
            g21 = m.get_mappings("G2_to_G1")
            p2h = m.get_mappings("pattern_to_host")
            inv_ok = len(g12) == len(g21) and all({v: k for k, v in a.items()} == b and len(set(a.values())) == len(a)
                                                    for a, b in zip(g12, g21))
            E.check(not inv_ok, "directions-are-mutually-inverse", dict(info, mcs=mcs, g12=[sorted(d.items()) for d in g12],
                                                                         g21=[sorted(d.items()) for d in g21]))
            want_p2h = g12 if an <= bn else g21
            E.check(p2h != want_p2h, "pattern-to-host-is-the-smaller-to-larger-direction", dict(info, mcs=mcs))
        else:
            g12 = m.get_mappings()
        bad = []
        for d in g12:
            shape_ok = (isinstance(d, dict) and set(d) <= set(A.nodes) and set(d.values()) <= set(B.nodes)
                        and len(set(d.values())) == len(d) and len(d) >= 1)
            bad.append(NOT(common_induced(A, B, d)) if shape_ok else True)
        got = [sorted(d.items()) for d in g12]
        E.check(OR(bad), "mappings-are-common-induced-subgraphs", dict(info, mcs=mcs, got=got))
        E.check(len({tuple(g) for g in got}) != len(got), "no-duplicate-mappings", dict(info, mcs=mcs, got=got))
        if mcs:
            ks = {len(d) for d in g12}
            E.check(len(ks) > 1, "maximum-mode-sizes-are-equal", dict(info, got=got))
            best = max(ks) if ks else 0
            sizes[mcs] = best
            larger = []
            for k in range(best + 1, min(an, bn) + 1):
                for f in partial_injections(list(A.nodes), list(B.nodes), k):
                    larger.append(common_induced(A, B, f))
            E.check(OR(larger), "a-larger-common-induced-subgraph-exists", dict(info, best=best, got=got))
            if impl == "matcher":
                E.check(m._last_size != best if hasattr(m, "_last_size") else False, "last-size-is-the-mapping-size", info)
        else:
            sizes[mcs] = max([len(d) for d in g12], default=0)
    E.check(sizes[True] != sizes[False], "maximum-size-agrees-between-modes", dict(info, sizes=sizes))
    # one matcher object used for several searches in a row: (B, A) first, then (A, B); each answer must be right
    mm = MCSMatcher()
    for X, Y, tag in ((B, A, "B,A"), (A, B, "A,B"), (B, A, "B,A again")):
        mm.find_common_subgraph(X, Y, mcs=True)
        maps = mm.get_mappings("G1_to_G2") if impl == "matcher" else mm.get_mappings()
        bad = []
        for d in maps:
            ok = isinstance(d, dict) and set(d) <= set(X.nodes) and set(d.values()) <= set(Y.nodes) and len(set(d.values())) == len(d)
            bad.append(NOT(common_induced(X, Y, d)) if ok else True)
        bad.append(len({len(d) for d in maps}) > 1 or (max([len(d) for d in maps], default=0) != sizes[True]))
        E.check(OR(bad), "re-used-matcher-object-gives-a-wrong-answer", dict(info, call=tag, got=[sorted(d.items()) for d in maps]))
    E.note(nontrivial=sizes[True] >= 2)
    E.observe((sizes[True], sizes[False]))


HARNESSES = {"mcs": h_mcs}


def shards(tier, seed):
    sh = []
    small = [(n, es) for n in (1, 2, 3) for es in all_shapes(n)]
    four = [(4, es) for es in all_shapes(4) if len(es) <= (3 if tier == "quick" else 4)]
    pairs = list(itertools.product(small, small))
    pairs += [(a, b) for a in four for b in small if b[0] == 3] + [(a, b) for a in small if a[0] == 3 for b in four]
    ring4, p4 = (4, [[1, 2], [1, 3], [2, 4], [3, 4]]), (4, [[1, 2], [2, 3], [3, 4]])
    pairs += [(ring4, p4), (p4, ring4)]
    revs = [((3, [[1, 2], [2, 3]]), (4, [[1, 2], [2, 3], [3, 4]])), ((3, [[1, 2], [2, 3]]), (3, [[1, 2], [2, 3]])),
            ((3, [[1, 2]]), (3, [[1, 2], [1, 3], [2, 3]]))]
    if tier == "thorough":
        pairs += [pr for pr in itertools.product(four, four) if pr not in pairs]
    for i, ((an, ae), (bn, be)) in enumerate(pairs):
        impl = "matcher" if (tier == "thorough" or i % 3 != 2) else "mtg"
        sh.append(dict(h="mcs", params=dict(an=an, aedges=ae, bn=bn, bedges=be, impl=impl)))
        if tier == "thorough":
            sh.append(dict(h="mcs", params=dict(an=an, aedges=ae, bn=bn, bedges=be, impl="mtg")))
    for (an, ae), (bn, be) in revs:
        for impl in ("matcher", "mtg"):
            sh.append(dict(h="mcs", params=dict(an=an, aedges=ae, bn=bn, bedges=be, impl=impl, arev=True)))
    return sh
