"""C06 — sub-graph search returns exactly the label-preserving monomorphisms."""
from __future__ import annotations

import copy
import itertools

import networkx as nx

from symx import AND, OR, NOT, EQ, GE, term_bool
from vf.graphs import all_shapes, sym_mol, injections

PROPERTY = "C06"
ALPHABET = ["C", "N", "O"]

META = dict(
    bounds=dict(
        quick="hosts: all graphs (connected or not) on <=4 nodes; patterns: all graphs on <=3 nodes (4-node hosts with >=4 bonds only against patterns without bonds or with <=2 nodes); element in {C,N}, "
              "hcount in {0,1}, bond order in {1,2}, charge in {0,1} on the 3-node hosts; strategies all/comp/bt, "
              "strict_cc_count on/off; two different hosts on the same node ids searched one after the other; max_results in {1,2}, threshold in {0,1,2}, pre_filter on/off — all on the "
              "same symbolic pair; additionally a few two-/three-atom shards with charges in {-2,-1}: different labels whose hash() values coincide in CPython.",
        thorough="hosts up to 5 nodes (<=5 edges), patterns up to 3 nodes, charge symbolic everywhere, hcount in {0,1,2}",
    ),
    outside=["hosts > 5 nodes, patterns > 3 nodes", "Strategy.PARTIAL (raises NotImplementedError)",
             "threshold values above the number of embeddings in the bounds (DEFAULT_THRESHOLD=5000 is never reached)"],
    stubs=[],
    assumptions=["node_attrs=['element','charge'], edge_attrs=['order'] (the selection the reactor uses)",
                 "with strict_cc_count=True the documented guard is the oracle: empty when the host has more components "
                 "than the pattern, otherwise the non-strict result"],
    rule="one evaluation = one symbolic path through VF2 for a (host shape, pattern shape) pair; labels stay symbolic; "
         "non-trivial = at least one embedding exists on the path",
)
WALL = dict(quick=170, thorough=1500)
MIN_PATHS = dict(quick=300, thorough=3000)
NA, EA = ["element", "charge"], ["order"]


def snapshot(g):
    return ([(v, dict(d)) for v, d in g.nodes(data=True)], [(u, v, dict(d)) for u, v, d in g.edges(data=True)])


def same_snapshot(a, b):
    if [v for v, _ in a[0]] != [v for v, _ in b[0]] or [(u, v) for u, v, _ in a[1]] != [(u, v) for u, v, _ in b[1]]:
        return False
    return AND([EQ(x[1], y[1]) for x, y in zip(a[0], b[0])] + [EQ(x[2], y[2]) for x, y in zip(a[1], b[1])])


def valid_formula(host, pat, f):
    conj = []
    for p, h in f.items():
        for k in NA:
            conj.append(EQ(host.nodes[h].get(k), pat.nodes[p].get(k)))
        conj.append(GE(host.nodes[h].get("hcount", 0), pat.nodes[p].get("hcount", 0)))
    for u, v in pat.edges:
        if not host.has_edge(f[u], f[v]):
            return False
        for k in EA:
            conj.append(EQ(host[f[u]][f[v]].get(k), pat[u][v].get(k)))
    return AND(conj)


def comp_index(g):
    idx = {}
    for i, c in enumerate(nx.connected_components(g)):
        for v in c:
            idx[v] = i
    return idx


def h_search(E, hn, hedges, pn, pedges, charges, hmax, limits):
    from synkit.Graph.Matcher.subgraph_matcher import SubgraphSearchEngine as SE

    hc = tuple(charges)
    host, _ = sym_mol(E, "H", hn, [tuple(e) for e in hedges], elements=("C", "N"), hcounts=tuple(range(hmax + 1)),
                      charges=hc, orders=(1, 2))
    pat, _ = sym_mol(E, "P", pn, [tuple(e) for e in pedges], elements=("C", "N"), hcounts=tuple(range(hmax + 1)),
                     charges=hc, orders=(1, 2), node_ids=[11 + i for i in range(pn)])
    snap_h, snap_p = snapshot(host), snapshot(pat)
    injs = list(injections(list(pat.nodes), list(host.nodes)))
    valid = {tuple(sorted(f.items())): valid_formula(host, pat, f) for f in injs}
    hci, pci = comp_index(host), comp_index(pat)
    n_hc, n_pc = len(set(hci.values())), len(set(pci.values()))

    def distinct(key):
        f = dict(key)
        seen = {}
        for p, h in f.items():
            if seen.setdefault(hci[h], pci[p]) != pci[p]:
                return False
        return True

    def run(strategy, **kw):
        res = SE.find_subgraph_mappings(host, pat, node_attrs=NA, edge_attrs=EA, strategy=strategy, **kw)
        keys = [tuple(sorted(m.items())) for m in res]
        return keys

    def exact_bad(keys, want):
        """keys (concrete list) differs from the set {f | want[f]} or has duplicates / foreign entries."""
        bad = [len(keys) != len(set(keys)), any(k not in valid for k in keys)]
        ks = set(keys)
        for k, f in want.items():
            bad.append(NOT(f) if k in ks else f)
        return OR(bad)

    info = dict(host=hedges, pattern=pedges)
    r_all = run("all")
    E.check(exact_bad(r_all, valid), "all-is-the-set-of-monomorphisms", dict(info, got=r_all))
    if n_hc < n_pc:
        want_comp = valid
    else:
        want_comp = {k: (f if distinct(k) else False) for k, f in valid.items()}
    r_comp = run("comp", strict_cc_count=False)
    E.check(exact_bad(r_comp, want_comp), "comp-is-the-component-distinct-subset", dict(info, got=r_comp))
    r_comp_s = run("comp", strict_cc_count=True)
    if n_hc > n_pc:
        E.check(len(r_comp_s) != 0, "strict-guard-empties-when-host-has-more-components", dict(info, got=r_comp_s))
    else:
        E.check(exact_bad(r_comp_s, want_comp), "comp-strict-equals-non-strict-when-guard-passes", dict(info, got=r_comp_s))
    r_bt = run("bt", strict_cc_count=False)
    any_comp = OR(list(want_comp.values()))
    # fallback: component-aware set if non-empty else the exhaustive set
    bt_bad = OR(AND(any_comp, exact_bad(r_bt, want_comp)), AND(NOT(any_comp), exact_bad(r_bt, valid)))
    E.check(bt_bad, "bt-is-comp-if-non-empty-else-all", dict(info, got=r_bt))
    E.check(NOT(AND(same_snapshot(snapshot(host), snap_h), same_snapshot(snapshot(pat), snap_p))), "inputs-not-modified")
    if limits:
        total = len(r_all)  # concrete on this path
        for mr in (1, 2):
            r = run("all", max_results=mr)
            E.check(len(r) != min(mr, total) or len(set(r)) != len(r) or not set(r) <= set(r_all),
                    "max-results-truncates-all", dict(info, max_results=mr, got=r, full=r_all))
            rc = run("comp", max_results=mr, strict_cc_count=False)
            E.check(len(rc) != min(mr, len(r_comp)) or len(set(rc)) != len(rc) or not set(rc) <= set(r_comp),
                    "max-results-truncates-comp", dict(info, max_results=mr, got=rc, full=r_comp))
        for th in (0, 1, 2):
            r = run("all", threshold=th)
            want = r_all if total <= th else []
            E.check(sorted(r) != sorted(want), "threshold-empties-or-keeps-all", dict(info, threshold=th, got=r, full=r_all))
            rc = run("comp", threshold=th, strict_cc_count=False)
            # component search applies the cap to intermediate lists too: it may only keep everything or empty
            E.check(not (sorted(rc) == sorted(r_comp) or (rc == [] and len(r_comp) > 0)) or
                    (len(r_comp) > th and rc != []),
                    "threshold-empties-or-keeps-comp", dict(info, threshold=th, got=rc, full=r_comp))
        rp = run("all", pre_filter=True)
        E.check(sorted(rp) != sorted(r_all), "pre-filter-does-not-change-the-result", dict(info, got=rp, full=r_all))
    E.note(nontrivial=len(r_all) > 0)
    E.observe((sorted(r_all), sorted(r_comp), sorted(r_bt)))


def h_history(E, n, edges_a, edges_b, pn, pedges):
    """two different hosts on the same node ids are searched one after the other in one process: the second answer must
    be the exact set for the second host (nothing may be carried over from the first call)."""
    from synkit.Graph.Matcher.subgraph_matcher import SubgraphSearchEngine as SE

    ha, _ = sym_mol(E, "A", n, [tuple(e) for e in edges_a], elements=("C",), hcounts=(0,), charges=(0,), orders=(1,))
    hb, _ = sym_mol(E, "B", n, [tuple(e) for e in edges_b], elements=("C", "N"), hcounts=(0,), charges=(0,), orders=(1, 2))
    pat, _ = sym_mol(E, "P", pn, [tuple(e) for e in pedges], elements=("C", "N"), hcounts=(0,), charges=(0,), orders=(1, 2),
                     node_ids=[11 + i for i in range(pn)])
    info = dict(first=edges_a, second=edges_b, pattern=pedges)
    for strategy in ("comp", "all", "bt"):
        SE.find_subgraph_mappings(ha, pat, node_attrs=NA, edge_attrs=EA, strategy=strategy, strict_cc_count=False)
        res = SE.find_subgraph_mappings(hb, pat, node_attrs=NA, edge_attrs=EA, strategy=strategy, strict_cc_count=False)
        keys = [tuple(sorted(m.items())) for m in res]
        valid = {tuple(sorted(f.items())): valid_formula(hb, pat, f) for f in injections(list(pat.nodes), list(hb.nodes))}
        hci, pci = comp_index(hb), comp_index(pat)

        def distinct(key):
            seen = {}
            for p, h in dict(key).items():
                if seen.setdefault(hci[h], pci[p]) != pci[p]:
                    return False
            return True

        if strategy == "all" or len(set(hci.values())) < len(set(pci.values())):
            want = valid
        else:
            want = {k: (f if distinct(k) else False) for k, f in valid.items()}
        bad = [len(keys) != len(set(keys)), any(k not in valid for k in keys)]
        ks = set(keys)
        for k, f in want.items():
            bad.append(NOT(f) if k in ks else f)
        if strategy == "bt":
            any_comp = OR(list(want.values()))
            bad_all = [len(keys) != len(set(keys))] + [NOT(f) if k in ks else f for k, f in valid.items()]
            E.check(OR(AND(any_comp, OR(bad)), AND(NOT(any_comp), OR(bad_all))), "second-search-depends-on-the-first",
                    dict(info, strategy=strategy, got=keys))
        else:
            E.check(OR(bad), "second-search-depends-on-the-first", dict(info, strategy=strategy, got=keys))
    E.note(nontrivial=True)
    E.observe(None)


HARNESSES = {"search": h_search, "history": h_history}


HISTORY_PAIRS = [
    (4, [[1, 2], [3, 4]], [[1, 3], [2, 4]]),
    (4, [[1, 2], [3, 4]], [[1, 4], [2, 3]]),
    (4, [[1, 2], [2, 3], [3, 4]], [[1, 3], [3, 2], [2, 4]]),
    (3, [[1, 2]], [[1, 3]]),
    (4, [[1, 2], [2, 3]], [[1, 2], [3, 4]]),
]


def shards(tier, seed):
    sh = []
    for n, ea, eb in HISTORY_PAIRS:
        for pn, pe in ((2, [[1, 2]]), (2, []), (3, [[1, 2]])):
            sh.append(dict(h="history", params=dict(n=n, edges_a=ea, edges_b=eb, pn=pn, pedges=pe)))
    # hosts whose smallest component comes first in the numbering (all_shapes lists isolated atoms last) against a pattern
    # with components of different sizes
    for hn, he in ((4, [[2, 3]]), (4, [[3, 4]]), (5, [[2, 3], [4, 5]])):
        sh.append(dict(h="search", params=dict(hn=hn, hedges=he, pn=3, pedges=[[1, 2]], charges=[0], hmax=0, limits=False)))
    # charges -1 / -2: different labels whose hash() values coincide in CPython
    for hn, he, pn, pe in ((2, [[1, 2]], 1, []), (2, [[1, 2]], 2, [[1, 2]]), (3, [[1, 2], [2, 3]], 2, [[1, 2]]), (2, [], 2, [])):
        sh.append(dict(h="search", params=dict(hn=hn, hedges=he, pn=pn, pedges=pe, charges=[-2, -1], hmax=0, limits=False)))
    if tier == "quick":
        hosts = [(n, es) for n in (2, 3, 4) for es in all_shapes(n)]
        pats = [(n, es) for n in (1, 2, 3) for es in all_shapes(n)]
        for hn, he in hosts:
            for pn, pe in pats:
                if pn > hn or len(pe) > len(he):
                    continue
                if hn == 4 and len(he) >= 4 and pn == 3 and len(pe) >= 1:
                    continue  # dense 4-node hosts x 3-node patterns: thorough tier
                sh.append(dict(h="search", params=dict(hn=hn, hedges=he, pn=pn, pedges=pe,
                                                       charges=[0, 1] if hn <= 3 and pn <= 2 else [0],
                                                       hmax=1, limits=(hn <= 3 or pn <= 2))))
    else:
        hosts = [(n, es) for n in (2, 3, 4) for es in all_shapes(n)] + [(5, es) for es in all_shapes(5, max_edges=5)]
        pats = [(n, es) for n in (1, 2, 3) for es in all_shapes(n)]
        for hn, he in hosts:
            for pn, pe in pats:
                if pn > hn or len(pe) > len(he):
                    continue
                sh.append(dict(h="search", params=dict(hn=hn, hedges=he, pn=pn, pedges=pe,
                                                       charges=[0, 1] if hn <= 4 else [0], hmax=2 if hn <= 3 else 1,
                                                       limits=True)))
    return sh
