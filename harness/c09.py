"""C09 — reaction normal forms preserve the reaction; the atom-map validator is exact (graph level)."""
from __future__ import annotations

import itertools

import networkx as nx

from symx import AND, OR, NOT, EQ, IFF
from vf.graphs import iso_formula, relabel
from harness.reactor_common import sym_reaction

PROPERTY = "C09"
ALPHABET = ["C", "N", "O", "H", "*", ""]

META = dict(
    bounds=dict(
        quick="canonicaliser: reactions on n<=3 atoms (element {C,N,O}, hcount per side 0..1, orders per side 0..2; for n=3: orders 0..1 and either hcount 0 or all-carbon) under a "
              "solver-chosen atom-map numbering and insertion order, back-ends wl and nauty: ITS of the output isomorphic to "
              "the ITS of the input, fixed point, numbering independence when all reactant atoms are distinguishable; "
              "validator: reactions on n<=3 atoms with symbolic labels, every renumbering accepted, a transposition of two "
              "atom maps on the product side accepted iff the two reaction centres (RC) / ITS graphs (ITS) are isomorphic",
        thorough="n=4 (orders 0..1) for both parts",
    ),
    outside=["Standardize.fit (idempotence, order / fragment / map invariance) and BalanceReactionCheck: thin wrappers over "
             "RDKit (MolToSmiles, CalcMolFormula) with no Python logic to execute symbolically", "fix_aam / normalize_aam "
             "SMILES regexes", "expand_aam, SMILES parsing and writing (RDKit)", "'same unmapped reactants and products' is "
             "checked on graphs (same multiset of atoms and bonds), not on SMILES strings"],
    stubs=["CanonRSMI.expand_aam (instance attribute), synkit.Chem.Reaction.canon_rsmi.rsmi_to_graph / graph_to_smi and "
           "synkit.Chem.Reaction.aam_validator.rsmi_to_graph replaced at the RDKit boundary by functions handing in / taking "
           "out the graphs; the function bodies between the two boundaries run unchanged"],
    assumptions=["the canonicaliser formats/hashes labels (realised per path: solver-driven exhaustion); the validator part "
                 "keeps all labels symbolic"],
    rule="one evaluation = one symbolic path; non-trivial = the reaction changes at least one bond",
)
WALL = dict(quick=170, thorough=1500)
MIN_PATHS = dict(quick=300, thorough=3000)


def its_of(G, H):
    from synkit.Graph.ITS.its_construction import ITSConstruction

    return ITSConstruction().ITSGraph(G, H)


def its_iso_full(a, b):
    def nl(g, v):
        t = g.nodes[v]["typesGH"]
        return (tuple(t[0][:4]), tuple(t[1][:4]))

    return iso_formula(a, b, lambda u, v: EQ(nl(a, u), nl(b, v)),
                       lambda e, f: EQ(tuple(a[e[0]][e[1]]["order"]), tuple(b[f[0]][f[1]]["order"])))


def mol_eq(a, b):
    """same molecule graph: identical node ids, labels, bonds"""
    if set(a.nodes) != set(b.nodes) or {frozenset(e) for e in a.edges} != {frozenset(e) for e in b.edges}:
        return False
    c = []
    for v in a.nodes:
        for k in ("element", "hcount", "charge", "aromatic", "atom_map"):
            c.append(EQ(a.nodes[v].get(k), b.nodes[v].get(k)))
    for u, v in a.edges:
        c.append(EQ(a[u][v].get("order"), b[u][v].get("order")))
    return AND(c)


def side_token(g):
    return (tuple(sorted((d["atom_map"], d["element"], d["hcount"], d["charge"], d["aromatic"]) for _, d in g.nodes(data=True))),
            tuple(sorted((min(g.nodes[u]["atom_map"], g.nodes[v]["atom_map"]), max(g.nodes[u]["atom_map"], g.nodes[v]["atom_map"]),
                          d["order"]) for u, v, d in g.edges(data=True))))


def content_token(G, H):
    """what the expanded, canonical reaction SMILES determines: the mapped reaction, independent of the atom order in which
    the graphs happen to be stored"""
    return repr((side_token(G), side_token(H)))


_TOK = {}


def smi_stub(g, **kw):
    """stands for graph_to_smi: an opaque token for 'the string determined by this mapped molecule graph alone'; what the
    token stands for (labels may be symbolic) is kept in a table, so writing the string realises nothing"""
    key = "{smi%d}" % len(_TOK)
    _TOK[key] = side_token(g)
    return key


def rsmi_tokens(rsmi):
    """the two tables entries a canonical string '{smiK}>>{smiL}' refers to, or None if the string is something else"""
    parts = rsmi.split(">>") if isinstance(rsmi, str) else []
    if len(parts) != 2 or parts[0] not in _TOK or parts[1] not in _TOK:
        return None
    return _TOK[parts[0]], _TOK[parts[1]]


def rsmi_differs(rsmi, sides, echo_of=None):
    """formula: the canonical string does not denote the two given side tokens.  A string that was not written through the
    stubbed serialiser at all is judged only if it merely echoes the input string `echo_of` (then the output depends on how
    the input was written); any other string is outside what this stub can see and is not judged."""
    t = rsmi_tokens(rsmi)
    if t is None:
        return echo_of is not None and rsmi == echo_of
    if sides is None:
        return False
    return NOT(AND(EQ(t[0], sides[0]), EQ(t[1], sides[1])))


def run_canon(backend, G, H, inst=None):
    """CanonRSMI.canonicalise with the RDKit boundary stubbed: expand_aam yields a string that determines the mapped reaction
    (as the real expanded SMILES does), rsmi_to_graph hands back the graphs registered for that string."""
    from synkit.Chem.Reaction import canon_rsmi as cr

    c = inst or cr.CanonRSMI(backend=backend)
    if not hasattr(c, "_verif_registry"):
        c._verif_registry = {}
    reg = c._verif_registry
    tok = content_token(G, H)
    reg.setdefault(tok, (G, H))
    c.expand_aam = lambda rsmi: rsmi
    o1, o2 = cr.rsmi_to_graph, cr.graph_to_smi
    cr.rsmi_to_graph = lambda rsmi, **kw: tuple(g.copy() for g in reg[rsmi])
    cr.graph_to_smi = smi_stub
    try:
        c.canonicalise(tok)
    finally:
        cr.rsmi_to_graph, cr.graph_to_smi = o1, o2
    return c.canonical_reactant_graph, c.canonical_product_graph, c


def h_canon(E, n, backend, omax=2, hmax=1, els=("C", "N", "O")):
    _TOK.clear()
    G0, H0, rs = sym_reaction(E, "r", n, els=tuple(els), hs=tuple(range(hmax + 1)), cs=(0,), orders=tuple(range(omax + 1)))
    # atom-map numbering and insertion order chosen by the solver
    pi = [int(x) for x in E.perm("num", n)]
    ids = {v: 3 + 2 * pi[v - 1] for v in G0.nodes}
    G = relabel(G0, ids, order=list(reversed(list(G0.nodes))))
    H = relabel(H0, ids)
    for g in (G, H):
        for v in g.nodes:
            g.nodes[v]["atom_map"] = v
    R, P, inst = run_canon(backend, G, H)
    info = dict(n=n, backend=backend, numbering=ids, canon_reactant_nodes=sorted(R.nodes), canon_product_nodes=sorted(P.nodes))
    its_in, its_out = its_of(G, H), its_of(R, P)
    E.check(NOT(its_iso_full(its_in, its_out)), "canonical-reaction-is-atom-map-equivalent-to-the-input", info)
    # same unmapped reactants and products
    giso = lambda a, b: iso_formula(a, b, lambda u, v: EQ((a.nodes[u]["element"], a.nodes[u]["hcount"], a.nodes[u]["charge"]),
                                                          (b.nodes[v]["element"], b.nodes[v]["hcount"], b.nodes[v]["charge"])),
                                    lambda e, f: EQ(a[e[0]][e[1]]["order"], b[f[0]][f[1]]["order"]))
    E.check(OR(NOT(giso(G, R)), NOT(giso(H, P))), "canonical-reaction-has-the-same-unmapped-sides", info)
    rsmi1 = inst.canonical_rsmi
    E.check(rsmi_differs(rsmi1, (side_token(R), side_token(P)), echo_of=content_token(G, H)),
            "canonical-string-is-the-serialisation-of-the-canonical-graphs", info)
    E.check(sorted(R.nodes) != list(range(1, n + 1)) or any(R.nodes[v].get("atom_map") != v for v in R.nodes)
            or any(P.nodes[v].get("atom_map") != v for v in P.nodes), "atom-maps-are-1..N-and-synchronised", info)
    # fixed point
    R2, P2, inst2 = run_canon(backend, R, P)
    E.check(OR(NOT(mol_eq(R, R2)), NOT(mol_eq(P, P2))), "canonical-form-is-a-fixed-point", info)
    E.check(rsmi_differs(inst2.canonical_rsmi, rsmi_tokens(rsmi1), echo_of=content_token(R, P)),
            "canonical-string-of-the-canonical-form-differs", info)
    # the same canonicaliser object used again: for the same reaction stored in another atom order, and for another
    # reaction with the same mapped reactants (product side = reactant side)
    Gr = relabel(G, {v: v for v in G.nodes}, order=list(reversed(list(G.nodes))))
    Hr = relabel(H, {v: v for v in H.nodes}, order=list(reversed(list(H.nodes))))
    R4, P4, _ = run_canon(backend, Gr, Hr, inst)
    E.check(NOT(its_iso_full(its_in, its_of(R4, P4))), "second-call-on-the-same-object-is-not-equivalent-to-its-input", info)
    R5, P5, _ = run_canon(backend, G, G.copy(), inst)
    E.check(NOT(its_iso_full(its_of(G, G), its_of(R5, P5))), "second-call-on-the-same-object-is-not-equivalent-to-its-input",
            dict(info, variant="identity reaction on the same reactants"))
    # numbering independence when all reactant atoms are distinguishable by their labels
    labs = [(G0.nodes[v]["element"], G0.nodes[v]["hcount"], tuple(sorted(
        (G0.nodes[w]["element"], G0[v][w]["order"]) for w in G0.neighbors(v)))) for v in G0.nodes]
    distinct = len(set(map(repr, labs))) == len(labs)
    if distinct:
        G3 = relabel(G0, {v: 40 - v for v in G0.nodes})
        H3 = relabel(H0, {v: 40 - v for v in H0.nodes})
        for g in (G3, H3):
            for v in g.nodes:
                g.nodes[v]["atom_map"] = v
        R3, P3, _ = run_canon(backend, G3, H3)
        E.check(OR(NOT(mol_eq(R, R3)), NOT(mol_eq(P, P3))), "output-depends-on-numbering-although-atoms-are-distinguishable", info)
    E.note(nontrivial=any(True for _ in its_in.edges))
    E.observe(sorted(R.nodes))


def h_validator(E, n, method, omax=2):
    from synkit.Chem.Reaction import aam_validator as av

    G, H, rs = sym_reaction(E, "r", n, els=("C", "O"), hs=(0, 1), cs=(0, 1), orders=tuple(range(omax + 1)))
    nodes = list(G.nodes)
    # (i) a renumbering of the mapping
    mp = {v: 10 + (n - v) for v in nodes}
    G2, H2 = relabel(G, mp, order=list(reversed(nodes))), relabel(H, mp)
    # (ii) two atom maps transposed on the product side only
    a, b = nodes[0], nodes[1]
    sw = {v: v for v in nodes}
    sw[a], sw[b] = b, a
    H3 = relabel(H, sw)
    for g in (G, H, G2, H2, H3):
        for v in g.nodes:
            g.nodes[v]["atom_map"] = v
    table = {"truth": (G, H), "renumbered": (G2, H2), "transposed": (G, H3)}
    old = av.rsmi_to_graph
    av.rsmi_to_graph = lambda rsmi, **kw: tuple(g.copy() for g in table[rsmi])
    try:
        v_ren = av.AAMValidator.smiles_check("renumbered", "truth", check_method=method)
        v_tr = av.AAMValidator.smiles_check("transposed", "truth", check_method=method)
        v_self = av.AAMValidator.smiles_check("truth", "truth", check_method=method)
    finally:
        av.rsmi_to_graph = old
    from synkit.Graph.ITS.its_decompose import get_rc

    its_t, its_x = its_of(G, H), its_of(G, H3)
    A, B = (get_rc(its_t), get_rc(its_x)) if method == "RC" else (its_t, its_x)

    def nl(g, v):
        t = g.nodes[v]["typesGH"]
        return (tuple(t[0][:4]), tuple(t[1][:4]))

    want = iso_formula(A, B, lambda u, v: EQ(nl(A, u), nl(B, v)),
                       lambda e, f: EQ(tuple(A[e[0]][e[1]]["order"]), tuple(B[f[0]][f[1]]["order"])))
    info = dict(n=n, method=method, transposed=(a, b))
    E.check(not (v_ren and v_self), "every-renumbering-of-a-mapping-is-accepted", dict(info, renumbered=v_ren, itself=v_self))
    E.check(NOT(IFF(bool(v_tr), want)), "transposed-mapping-accepted-iff-the-centres-are-isomorphic", dict(info, verdict=v_tr))
    E.note(nontrivial=A.number_of_edges() > 0)
    E.observe((bool(v_ren), bool(v_tr)))


HARNESSES = {"canon": h_canon, "validator": h_validator}


def shards(tier, seed):
    sh = []
    for be in ("wl", "nauty"):
        sh.append(dict(h="canon", params=dict(n=2, backend=be)))
        if tier == "quick":
            sh.append(dict(h="canon", params=dict(n=3, backend=be, omax=1, hmax=0)))
            sh.append(dict(h="canon", params=dict(n=3, backend=be, omax=1, hmax=1, els=["C"])))
        else:
            sh.append(dict(h="canon", params=dict(n=3, backend=be, omax=2)))
    for m in ("RC", "ITS"):
        sh.append(dict(h="validator", params=dict(n=2, method=m)))
        sh.append(dict(h="validator", params=dict(n=3, method=m, omax=1 if tier == "quick" else 2)))
    if tier == "thorough":
        sh.append(dict(h="canon", params=dict(n=4, backend="nauty", omax=1)))
        sh.append(dict(h="validator", params=dict(n=4, method="RC", omax=1)))
    return sh
