"""C16 — network views (bipartite graph, reaction strings, species graph) round-trip exactly."""
from __future__ import annotations

PROPERTY = "C16"
NAMES = ["A", "B", "C1", "Fe"]
ALPHABET = NAMES + ["r", "q", "R1"]

META = dict(
    bounds=dict(
        quick="networks over species {A,B,C1,Fe}: 2 species x 2 reactions with coefficients {0,1,12}; 2 species x 1 reaction "
              "with {0,1,2,3,10}; 3 species x 1 reaction with {0,1,2,10}; 3 species x 2 reactions and 2 species x 3 reactions with {0,1}; three reactions on one species pair A->B(+C1) with coefficients 1..3 / 1..2; rules {r,q,R1}; first "
              "reaction under a caller-chosen id; molecule labels on/off; bipartite export with string and integer ids; "
              "rule suffix on; species graph for networks whose reactions all have both sides",
        thorough="3 species x 2 reactions with coefficients {0,1,2}; 4 species x 2 reactions with {0,1}; 3 species x 3 "
                 "reactions with {0,1}",
    ),
    outside=["species names with spaces, leading digits, '+', '|' or '>'", "rule names with whitespace",
             "export flag combinations that do not claim invertibility (include_stoich=False, include_edge_id_attr=False, "
             "include_rule_suffix=False)", "isolated kept species (no reaction mentions them)"],
    stubs=[],
    assumptions=["species names, rules and coefficients are hashed / cast / formatted by the code: solver-driven exhaustion "
                 "of the finite space"],
    rule="one evaluation = one realised network; non-trivial = at least two reactions share a species or a catalyst / "
         "multi-digit coefficient is present",
)
WALL = dict(quick=170, thorough=1500)
MIN_PATHS = dict(quick=500, thorough=5000)


def rx_list(H):
    return sorted((eid, e.rule, tuple(sorted(e.reactants.to_dict().items())), tuple(sorted(e.products.to_dict().items())))
                  for eid, e in H.edges.items())


def h_views(E, ns, nr, coeffs, rules=("r", "q", "R1"), shared=False):
    from synkit.CRN.Hypergraph.hypergraph import CRNHyperGraph
    from synkit.CRN.Hypergraph import conversion as cv

    sp = NAMES[:ns]
    H = CRNHyperGraph()
    both_sides = True
    for j in range(nr):
        if shared:
            # several reactions on one species pair A -> B (+ C1), coefficients symbolic
            r = {"A": int(E.choice("r%dA" % j, [1, 2, 3]))}
            p = {"B": int(E.choice("p%dB" % j, [1, 2])), "C1": int(E.choice("p%dC1" % j, [0, 1]))}
        else:
            r = {s: int(E.choice("r%d%s" % (j, s), coeffs)) for s in sp}
            p = {s: int(E.choice("p%d%s" % (j, s), coeffs)) for s in sp}
        r = {k: v for k, v in r.items() if v}
        p = {k: v for k, v in p.items() if v}
        E.assume(bool(r) or bool(p))
        both_sides = both_sides and bool(r) and bool(p)
        rule = str(E.choice("rule%d" % j, list(rules))) if j < 2 and len(rules) > 1 else rules[j % len(rules)]
        H.add_rxn(r, p, rule=rule, edge_id="x9" if j == 0 else None)
    if bool(E.bool("mol")):
        for i, s in enumerate(sorted(H.species)):
            if i % 2 == 0:
                H.assign_mol(s, "mol_" + s)
    want = rx_list(H)
    want_mol = dict(H.species_to_mol)
    info = dict(network=want, mol=want_mol)
    # --- bipartite, string and integer ids
    # every species of the network takes part in a reaction here, so leaving isolated species out changes nothing
    for int_ids, iso_sp in ((False, True), (True, True), (True, False), (False, False)):
        B = cv.hypergraph_to_bipartite(H, integer_ids=int_ids, include_edge_id_attr=True, include_mol=True,
                                       include_isolated_species=iso_sp)
        H2 = cv.bipartite_to_hypergraph(B)
        E.check(rx_list(H2) != want or dict(H2.species_to_mol) != want_mol or set(H2.species) != set(H.species),
                "bipartite-round-trip", dict(info, integer_ids=int_ids, include_isolated_species=iso_sp, got=rx_list(H2),
                                             got_mol=dict(H2.species_to_mol)))
        n_sp = sum(1 for _, d in B.nodes(data=True) if d.get("kind") == "species")
        n_rx = sum(1 for _, d in B.nodes(data=True) if d.get("kind") == "reaction")
        E.check(n_sp != len(H.species) or n_rx != len(H.edges), "bipartite-has-one-node-per-species-and-reaction", info)
    # --- reaction strings
    lines = cv.hypergraph_to_rxn_strings(H, include_rule_suffix=True)
    H3 = cv.rxns_to_hypergraph(lines)
    strip = lambda L: sorted(x[1:] for x in L)
    E.check(strip(rx_list(H3)) != strip(want), "reaction-strings-round-trip", dict(info, lines=lines, got=rx_list(H3)))
    lines_id = cv.hypergraph_to_rxn_strings(H, include_rule_suffix=True, include_edge_id=True)
    E.check(strip(rx_list(cv.rxns_to_hypergraph(lines_id))) != strip(want), "reaction-strings-with-ids-round-trip",
            dict(info, lines=lines_id))
    # --- species graph (only claimed when every reaction has both sides)
    if both_sides:
        S = cv.hypergraph_to_species_graph(H, include_mol=True)
        H4 = cv.species_graph_to_hypergraph(S)
        ids_sto = lambda L: sorted((x[0], x[2], x[3]) for x in L)
        E.check(ids_sto(rx_list(H4)) != ids_sto(want) or dict(H4.species_to_mol) != want_mol, "species-graph-round-trip",
                dict(info, got=rx_list(H4)))
    E.check(rx_list(H) != want or dict(H.species_to_mol) != want_mol, "exports-do-not-modify-the-network", info)
    multi = any(c >= 10 for x in want for side in (x[2], x[3]) for _, c in side)
    cat = any(set(dict(x[2])) & set(dict(x[3])) for x in want)
    E.note(nontrivial=nr >= 2 or multi or cat)
    E.observe(want)


HARNESSES = {"views": h_views}


def shards(tier, seed):
    sh = [
        dict(h="views", params=dict(ns=2, nr=2, coeffs=[0, 1, 12], rules=["r", "R1"])),
        dict(h="views", params=dict(ns=2, nr=1, coeffs=[0, 1, 2, 3, 10])),
        dict(h="views", params=dict(ns=3, nr=1, coeffs=[0, 1, 2, 10], rules=["q"])),
        dict(h="views", params=dict(ns=3, nr=2, coeffs=[0, 1], rules=["r", "q"])),
        dict(h="views", params=dict(ns=2, nr=3, coeffs=[0, 1], rules=["r", "q"])),
        dict(h="views", params=dict(ns=3, nr=3, coeffs=[], rules=["r"], shared=True)),
    ]
    if tier == "thorough":
        sh += [
            dict(h="views", params=dict(ns=3, nr=2, coeffs=[0, 1, 2])),
            dict(h="views", params=dict(ns=4, nr=2, coeffs=[0, 1])),
            dict(h="views", params=dict(ns=3, nr=3, coeffs=[0, 1])),
        ]
    return sh
