"""C20 — siphons, traps, firing and pathway realizability match their Petri-net definitions."""
from __future__ import annotations

import itertools

from symx import AND, OR, NOT, IFF, EQ, GE, term_bool

PROPERTY = "C20"
SPECIES = ["A", "B", "C", "D"]
ALPHABET = []

META = dict(
    bounds=dict(
        quick="siphons/traps: 3 species x 2 reactions, every arc weight a symbolic integer >= 0 (presence = weight > 0), "
              "graph input, plus 3 species x 3 reactions with at most one reactant and one product species per reaction; the enumeration / size cut-off / minimality filter of find_siphons and find_traps over 4 species with the per-subset predicate replaced by an arbitrary union-closed symbolic predicate (= any number of reactions); 3 species x 2 reactions through CRNHyperGraph (coefficients 0..1); firing: 3 places, "
              "unbounded symbolic markings and weights; realizability: 3 species x 2 reactions, coefficients 0..1, "
              "flows 0..2, and 2 species x 3 reactions with flows 0..1, also on an analyser object that was used for a variant of the network before",
        thorough="siphons/traps 3x3 and 4x2 on graph input, 3x3 through the hypergraph; enumeration over an arbitrary union-closed predicate on 5 species (1.4 million families, cut by the wall budget); realizability 3 species x 3 "
                 "reactions, flows 0..2 (sum <= 5)",
    ),
    outside=["siphon_persistence_condition (numpy semiflows)", "Koenig / scaled / borrow realizability variants",
             "networks beyond the bounds; search limits max_states/max_depth are never "
             "reached inside the bounds"],
    stubs=["enumeration harness only: synkit.CRN.Petri.structure._is_siphon_indices / _is_trap_indices are replaced by a "
           "symbolic predicate over subsets, assumed closed under union; the real predicates are decided by the "
           "siphons_graph / siphons_hg harnesses (per reaction, up to 4 species)"],
    assumptions=["siphon/trap harness on graph input: the bipartite DiGraph carries the complete species x reaction arc "
                 "skeleton, an arc of weight 0 counts as absent (the code tests stoich > 0)",
                 "realizability: weights and flows are realised by int(), markings are hashed: solver-driven exhaustion"],
    rule="one evaluation = one symbolic path; siphon/trap paths stand for all positive weights with the same presence "
         "pattern; non-trivial = the result list / firing / certificate is non-empty",
)
WALL = dict(quick=150, thorough=1500)
MIN_PATHS = dict(quick=200, thorough=2000)


def _subsets(n):
    for k in range(1, n + 1):
        for c in itertools.combinations(range(n), k):
            yield frozenset(c)


def _oracle_sets(ns, nr, pres_r, pres_p, kind):
    """formula per subset: is it an inclusion-minimal siphon (trap)?  pres_*[(j, i)] are formulas/bools."""
    holds = {}
    for T in _subsets(ns):
        cl = []
        for j in range(nr):
            prod = OR([pres_p[j, i] for i in T])
            cons = OR([pres_r[j, i] for i in T])
            cl.append(OR(NOT(prod), cons) if kind == "siphon" else OR(NOT(cons), prod))
        holds[T] = AND(cl)
    minimal = {}
    for T in holds:
        minimal[T] = AND([holds[T]] + [NOT(holds[U]) for U in holds if U < T])
    return minimal


def h_siphons_graph(E, ns, nr, unimol=False, sorted_rx=False):
    """find_siphons / find_traps on a bipartite DiGraph handed in directly, symbolic arc weights.
    unimol=True: every reaction has at most one reactant species and at most one product species (assumed)."""
    import networkx as nx
    from synkit.CRN.Petri.structure import find_siphons, find_traps

    sp = SPECIES[:ns]
    G = nx.DiGraph()
    for s in sp:
        G.add_node("S:" + s, kind="species", bipartite=0, label=s)
    wr, wp = {}, {}
    for j in range(nr):
        rn = "R:r_%d" % (j + 1)
        G.add_node(rn, kind="reaction", bipartite=1, label="r")
        for i, s in enumerate(sp):
            wr[j, i] = E.int("r%d%s" % (j, s), 0, 10**6)
            wp[j, i] = E.int("p%d%s" % (j, s), 0, 10**6)
            G.add_edge("S:" + s, rn, role="reactant", stoich=wr[j, i])
            G.add_edge(rn, "S:" + s, role="product", stoich=wp[j, i])
    pres_r = {k: term_bool(v > 0) for k, v in wr.items()}
    pres_p = {k: term_bool(v > 0) for k, v in wp.items()}
    if unimol:
        from symx import COUNT

        for j in range(nr):
            E.assume(COUNT([pres_r[j, i] for i in range(ns)]) <= 1)
            E.assume(COUNT([pres_p[j, i] for i in range(ns)]) <= 1)
        if sorted_rx:
            # reactions are interchangeable columns: one representative per ordering (reactant index, product index)
            from symx import ITE, SUM

            code = [SUM([ITE(pres_r[j, i], (i + 1) * (ns + 1), 0) for i in range(ns)])
                    + SUM([ITE(pres_p[j, i], i + 1, 0) for i in range(ns)]) for j in range(nr)]
            for j in range(nr - 1):
                E.assume(code[j] <= code[j + 1])
    sip = find_siphons(G)
    trp = find_traps(G)
    _judge_sets(E, sp, nr, pres_r, pres_p, sip, trp)
    for ms in (1, 2):
        if ms < ns:
            _judge_sets(E, sp, nr, pres_r, pres_p, find_siphons(G, max_size=ms), find_traps(G, max_size=ms), max_size=ms,
                        tag="-up-to-max-size")


def _judge_sets(E, sp, nr, pres_r, pres_p, sip, trp, max_size=None, tag=""):
    ns = len(sp)
    for kind, got in (("siphon", sip), ("trap", trp)):
        got_sets = [frozenset(sp.index(x) for x in S) for S in got]
        minimal = _oracle_sets(ns, nr, pres_r, pres_p, kind)
        bad = [len(got_sets) != len(set(got_sets))]
        for T, f in minimal.items():
            if max_size is not None and len(T) > max_size:
                bad.append(T in got_sets)
                continue
            bad.append(NOT(f) if T in got_sets else f)
        E.check(OR(bad), kind + "s-are-the-minimal-sets" + tag, dict(returned=[sorted(S) for S in got], max_size=max_size))
    E.note(nontrivial=bool(sip) or bool(trp))
    E.observe((sorted(sorted(S) for S in sip), sorted(sorted(S) for S in trp)))


def h_siphons_hg(E, ns, nr, cmax=1):
    """the same through CRNHyperGraph (coefficients realised)."""
    from synkit.CRN.Hypergraph.hypergraph import CRNHyperGraph
    from synkit.CRN.Petri.structure import find_siphons, find_traps

    sp = SPECIES[:ns]
    hg = CRNHyperGraph()
    pres_r, pres_p = {}, {}
    for j in range(nr):
        r = {s: int(E.int("r%d%s" % (j, s), 0, cmax)) for s in sp}
        p = {s: int(E.int("p%d%s" % (j, s), 0, cmax)) for s in sp}
        E.assume(any(r.values()) or any(p.values()))
        hg.add_rxn(r, p, rule="r")
        for i, s in enumerate(sp):
            pres_r[j, i] = r[s] > 0
            pres_p[j, i] = p[s] > 0
    present = sorted(hg.species)
    # species that occur nowhere are not part of the network
    idx = [sp.index(s) for s in present]
    pr = {(j, k): pres_r[j, i] for j in range(nr) for k, i in enumerate(idx)}
    pp = {(j, k): pres_p[j, i] for j in range(nr) for k, i in enumerate(idx)}
    _judge_sets(E, present, nr, pr, pp, find_siphons(hg), find_traps(hg))
    from synkit.CRN.Petri.analyzer import PetriAnalyzer

    an = PetriAnalyzer(hg).compute_siphons_traps()
    key = lambda L: sorted(sorted(S) for S in L)
    E.check(key(an.siphons) != key(find_siphons(hg)) or key(an.traps) != key(find_traps(hg)), "analyzer-wrapper-reports-the-same-sets",
            dict(siphons=key(an.siphons), traps=key(an.traps)))


def h_enumeration(E, ns, kind):
    """find_siphons / find_traps as an enumeration procedure: the per-subset predicate (_is_siphon_indices /
    _is_trap_indices, decided on its own by the siphons_graph harness) is replaced by an arbitrary symbolic predicate over
    the non-empty subsets of ns species, assumed closed under union (unions of siphons are siphons, the same for traps, and
    every union-closed family is the siphon family of some net with enough reactions: for a set T outside the family take x
    in T minus the union U of the members inside T and add the reaction (S minus T) -> x).  The real enumeration,
    size cut-off and minimality filter run on it; the result must be the inclusion-minimal sets of the predicate."""
    import networkx as nx
    import synkit.CRN.Petri.structure as st

    sp = (SPECIES + ["E", "F"])[:ns]
    G = nx.DiGraph()
    for s in sp:
        G.add_node("S:" + s, kind="species", bipartite=0, label=s)
    G.add_node("R:r_1", kind="reaction", bipartite=1, label="r")
    subs = list(_subsets(ns))
    P = {T: E.bool("P" + "".join(sp[i] for i in sorted(T))) for T in subs}
    for T in subs:
        for U in subs:
            if not (T <= U or U <= T):
                E.assume(OR([NOT(P[T]), NOT(P[U]), P[T | U]]))
    calls = []

    def stub(G_, species_sorted, reaction_nodes, S_idx):
        calls.append(frozenset(S_idx))
        if not S_idx:
            return False
        return P[frozenset(sp.index(str(species_sorted[i])[2:]) for i in S_idx)]

    name = "_is_siphon_indices" if kind == "siphon" else "_is_trap_indices"
    find = st.find_siphons if kind == "siphon" else st.find_traps
    orig = getattr(st, name)
    setattr(st, name, stub)
    try:
        full = find(G)
        cut = {ms: find(G, max_size=ms) for ms in range(1, ns)}
    finally:
        setattr(st, name, orig)
    minimal = {T: AND([P[T]] + [NOT(P[U]) for U in subs if U < T]) for T in subs}
    for ms, got in [(None, full)] + sorted(cut.items()):
        got_sets = [frozenset(sp.index(x) for x in S) for S in got]
        bad = [len(got_sets) != len(set(got_sets))]
        for T, f in minimal.items():
            if ms is not None and len(T) > ms:
                bad.append(T in got_sets)
            else:
                bad.append(NOT(f) if T in got_sets else f)
        E.check(OR(bad), kind + "s-are-the-minimal-sets-of-the-predicate" + ("-up-to-max-size" if ms else ""),
                dict(returned=[sorted(S) for S in got], max_size=ms))
    E.note(nontrivial=bool(full))
    E.observe(sorted(sorted(S) for S in full))


def h_fire(E, npl):
    """PetriNet.enabled / fire with fully symbolic marking and weights."""
    from synkit.CRN.Petri.net import PetriNet

    pl = SPECIES[:npl]
    pre = {p: E.int("pre" + p, 0, 10**6) for p in pl}
    post = {p: E.int("post" + p, 0, 10**6) for p in pl}
    has_pre = {p: E.bool("haspre" + p) for p in pl}
    has_post = {p: E.bool("haspost" + p) for p in pl}
    m = {p: E.int("m" + p, 0, 10**6) for p in pl}
    in_m = {p: E.bool("inm" + p) for p in pl}
    net = PetriNet()
    pre_d = {p: pre[p] for p in pl if has_pre[p]}
    post_d = {p: post[p] for p in pl if has_post[p]}
    net.add_transition("t", pre_d, post_d)
    marking = {p: m[p] for p in pl if in_m[p]}
    en = net.enabled(marking, "t")
    mv = {p: (m[p] if p in marking else 0) for p in pl}
    want = AND([GE(mv[p], pre_d.get(p, 0)) for p in pl])
    E.check(NOT(IFF(en, want)), "enabled-iff-marking-covers-pre", dict(enabled=en))
    new = net.fire(marking, "t")
    bad = [NOT(EQ(new.get(p, 0), mv[p] - pre_d.get(p, 0) + post_d.get(p, 0))) for p in pl]
    bad.append(any(k not in pl for k in new))
    bad.append(NOT(AND([EQ(marking[p], m[p]) for p in marking])))  # input marking untouched
    E.check(OR(bad), "fire-is-marking-minus-pre-plus-post")
    E.note(nontrivial=bool(pre_d) and bool(post_d))
    E.observe((bool(en), sorted(new)))


def _orderings(flow):
    items = []
    for e, f in flow.items():
        items += [e] * f
    seen = set()
    for perm in itertools.permutations(items):
        if perm not in seen:
            seen.add(perm)
            yield perm


def _fires_ok(seq, edges, species):
    m = {s: 0 for s in species}
    for e in seq:
        tail, head = edges[e]
        for s, w in tail.items():
            m[s] -= w
            if m[s] < 0:
                return False
        for s, w in head.items():
            m[s] += w
    return all(v == 0 for v in m.values())


def h_realizable(E, ns, nr, cmax, fmax, reuse=False):
    from synkit.CRN.Hypergraph.hypergraph import CRNHyperGraph
    from synkit.CRN.Path.realizability import PathwayRealizability, hypergraph_to_pr_inputs

    sp = SPECIES[:ns]
    hg = CRNHyperGraph()
    flow = {}
    for j in range(nr):
        r = {s: int(E.int("r%d%s" % (j, s), 0, cmax)) for s in sp}
        p = {s: int(E.int("p%d%s" % (j, s), 0, cmax)) for s in sp}
        E.assume(any(r.values()) or any(p.values()))
        e = hg.add_rxn(r, p, rule="r")
        flow[e.id] = int(E.int("f%d" % j, 0, fmax))
    E.assume(sum(flow.values()) <= 5)
    vertices, edges, flow_map = hypergraph_to_pr_inputs(hg, flow=flow)
    pr = PathwayRealizability()
    if reuse:
        # the analyser object is used for another network first: same ids, same species on every side, every
        # consumed amount one higher (what a caller looping over variants of a pathway does)
        edges0 = {eid: ({k: v + 1 for k, v in t.items()}, dict(h_)) for eid, (t, h_) in edges.items()}
        pr.load_hypergraph_and_flow(vertices, edges0, {k: 1 for k in flow_map})
        pr.build_petri_net_from_flow()
        pr.is_realizable()
    pr.load_hypergraph_and_flow(vertices, edges, flow_map)
    pr.build_petri_net_from_flow()
    ok, cert = pr.is_realizable()
    ref_edges = {e.id: ({k: v for k, v in e.reactants.to_dict().items()}, {k: v for k, v in e.products.to_dict().items()})
                 for e in hg.edge_list()}
    info = dict(edges=ref_edges, flow=flow, verdict=ok, certificate=cert)
    E.check(set(edges) != set(ref_edges) or any(
        {k: v for k, v in edges[i][0].items() if v} != ref_edges[i][0] or
        {k: v for k, v in edges[i][1].items() if v} != ref_edges[i][1] for i in ref_edges) or flow_map != flow,
            "adapter-preserves-network-and-flow", info)
    if ok:
        cnt = {e: 0 for e in flow}
        bad = cert is None
        if not bad:
            for t in cert:
                if t not in cnt:
                    bad = True
                    break
                cnt[t] += 1
            bad = bad or cnt != flow or not _fires_ok(cert, ref_edges, hg.species)
        E.check(bad, "certificate-is-a-valid-firing-sequence", info)
    else:
        exists = any(_fires_ok(seq, ref_edges, hg.species) for seq in _orderings(flow))
        E.check(exists, "realizable-pathway-reported-unrealizable", info)
    E.note(nontrivial=bool(ok and cert))
    E.observe((bool(ok), list(cert) if cert else None))


HARNESSES = {"siphons_graph": h_siphons_graph, "siphons_hg": h_siphons_hg, "enumeration": h_enumeration, "fire": h_fire, "realizable": h_realizable}


def shards(tier, seed):
    sh = [
        dict(h="siphons_graph", params=dict(ns=3, nr=2)),
        dict(h="siphons_graph", params=dict(ns=2, nr=2)),
        dict(h="siphons_graph", params=dict(ns=3, nr=3, unimol=True)),
        dict(h="siphons_hg", params=dict(ns=3, nr=2)),
        dict(h="enumeration", params=dict(ns=4, kind="siphon")),
        dict(h="enumeration", params=dict(ns=4, kind="trap")),
        dict(h="fire", params=dict(npl=2)),
        dict(h="realizable", params=dict(ns=2, nr=2, cmax=2, fmax=2)),
        dict(h="realizable", params=dict(ns=3, nr=2, cmax=1, fmax=2)),
        dict(h="realizable", params=dict(ns=2, nr=3, cmax=1, fmax=1)),
        dict(h="realizable", params=dict(ns=2, nr=2, cmax=1, fmax=2, reuse=True)),
        dict(h="realizable", params=dict(ns=2, nr=3, cmax=1, fmax=1, reuse=True)),
    ]
    if tier == "thorough":
        sh += [
            dict(h="siphons_graph", params=dict(ns=3, nr=3)),
            dict(h="siphons_graph", params=dict(ns=4, nr=2)),
            dict(h="siphons_graph", params=dict(ns=4, nr=3, unimol=True, sorted_rx=True)),
            dict(h="siphons_hg", params=dict(ns=3, nr=3)),
            dict(h="enumeration", params=dict(ns=5, kind="siphon")),
            dict(h="enumeration", params=dict(ns=5, kind="trap")),
            dict(h="fire", params=dict(npl=3)),
            dict(h="realizable", params=dict(ns=3, nr=3, cmax=1, fmax=2)),
        ]
    return sh
