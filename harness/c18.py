"""C18 — the network canonical form is a complete invariant; automorphism data are exact."""
from __future__ import annotations

import itertools

import networkx as nx

PROPERTY = "C18"
NAMES = ["A", "B", "C", "D", "E", "F", "G"]
ALT = ["Zz", "Ya", "Xb", "Wc", "Vd", "Ue", "Tf"]
ALPHABET = []

META = dict(
    bounds=dict(
        quick="networks over 3 species x <=2 reactions with coefficients 0..2, and 2 species x 3 reactions with 0..1; each "
              "against its image under a solver-chosen species renaming, reversed reaction order and regenerated ids; "
              "bipartite view (stoichiometry on/off) and species-graph view; id() of the refinement epoch replaced by an "
              "adversarial stub (always equal / always fresh); pairs of independent networks (2 species, <=2 reactions) for "
              "completeness; three concrete symmetric networks (2 sources x 2 sinks with all four conversions; a 2-ring next to a 3-ring; two reversible pairs joined by two conversions) under every species renaming [thorough: and every reaction order]; CRNCanonicalizer and CRNAutomorphism",
        thorough="3 species x 3 reactions (0..1), 4 species x 2 reactions (0..1), rings of 3 and 4 identical reactions",
    ),
    outside=["WLCanonicalizer (approximate by design)", "networks beyond the bounds", "max_depth / timeout early stops"],
    stubs=["module attribute `id` of synkit.CRN.Topo.canon: returns one constant (every temporary gets the same address) or a "
           "fresh number per call — both are allowed by CPython's contract for id() of objects with disjoint lifetimes"],
    assumptions=["'identical canonical graphs' = same node set, same arcs, same covered attributes (node_attr_keys, "
                 "edge_attr_keys); species labels and reaction ids are carried along and differ by construction",
                 "structure-preserving self-map: for CRNCanonicalizer a node bijection preserving kind, arcs, role and stoich "
                 "(as configured); for CRNAutomorphism kind and arcs (it compares no edge attributes)",
                 "all values are realised: solver-driven exhaustion of the finite space"],
    rule="one evaluation = one realised network (pair); non-trivial = the view has a non-identity automorphism or the "
         "renaming is not the identity",
)
WALL = dict(quick=170, thorough=1500)
MIN_PATHS = dict(quick=300, thorough=3000)


def build(E, pre, ns, nr, cmax, names, rule="r", order=None, unit_ring=None, fixed=None):
    from synkit.CRN.Hypergraph.hypergraph import CRNHyperGraph

    rx = []
    if fixed:
        return [({int(k): v for k, v in r.items()}, {int(k): v for k, v in p.items()}) for r, p in fixed]
    if unit_ring:
        for j in range(unit_ring):
            rx.append(({j: 1}, {(j + 1) % unit_ring: 1}))
    else:
        for j in range(nr):
            r = {i: int(E.int("%sr%d_%d" % (pre, j, i), 0, cmax)) for i in range(ns)}
            p = {i: int(E.int("%sp%d_%d" % (pre, j, i), 0, cmax)) for i in range(ns)}
            r = {k: v for k, v in r.items() if v}
            p = {k: v for k, v in p.items() if v}
            E.assume(bool(r) and bool(p))
            rx.append((r, p))
    return rx


def make_hg(rx, names, rule, order):
    from synkit.CRN.Hypergraph.hypergraph import CRNHyperGraph

    hg = CRNHyperGraph()
    for j in order:
        r, p = rx[j]
        hg.add_rxn({names[i]: c for i, c in r.items()}, {names[i]: c for i, c in p.items()}, rule=rule)
    return hg


def ref_view(rx, names, include_rule, include_stoich):
    """the view the property speaks about, built by the harness from the network itself: bipartite species/reaction
    digraph (reactant arcs species->reaction, product arcs reaction->species, stoichiometry if requested) or the
    collapsed species->species digraph."""
    G = nx.DiGraph()
    used = sorted({i for r, p in rx for i in list(r) + list(p)})
    for i in used:
        G.add_node(("s", names[i]), kind="species")
    if include_rule:
        for j, (r, p) in enumerate(rx):
            G.add_node(("r", j), kind="reaction")
            for i, c in r.items():
                G.add_edge(("s", names[i]), ("r", j), role="reactant", **({"stoich": c} if include_stoich else {}))
            for i, c in p.items():
                G.add_edge(("r", j), ("s", names[i]), role="product", **({"stoich": c} if include_stoich else {}))
    else:
        for r, p in rx:
            for i in r:
                for k in p:
                    G.add_edge(("s", names[i]), ("s", names[k]))
    return G


def covered(G, nkeys, ekeys):
    nodes = {v: tuple(G.nodes[v].get(k) for k in nkeys) for v in G.nodes}
    arcs = {(u, v): tuple(_fz(d.get(k)) for k in ekeys) for u, v, d in G.edges(data=True)}
    return nodes, arcs


def _fz(x):
    if isinstance(x, (set, frozenset)):
        return tuple(sorted(x))
    if isinstance(x, dict):
        return tuple(sorted(x.items()))
    return x


def iso_maps(G1, G2, nkeys, ekeys):
    """all structure-preserving bijections G1 -> G2 (brute force on small views)."""
    n1, a1 = covered(G1, nkeys, ekeys)
    n2, a2 = covered(G2, nkeys, ekeys)
    if len(n1) != len(n2) or len(a1) != len(a2):
        return []
    out = []
    v1 = list(n1)
    outd1 = {v: sorted(lab for (u, w), lab in a1.items() if u == v) for v in v1}
    ind1 = {v: sorted(lab for (u, w), lab in a1.items() if w == v) for v in v1}
    outd2 = {v: sorted(lab for (u, w), lab in a2.items() if u == v) for v in n2}
    ind2 = {v: sorted(lab for (u, w), lab in a2.items() if w == v) for v in n2}
    cand = {v: [w for w in n2 if n1[v] == n2[w] and outd1[v] == outd2[w] and ind1[v] == ind2[w]] for v in v1}
    order = sorted(v1, key=lambda v: len(cand[v]))
    arcs_of = {v: [(u, w) for (u, w) in a1 if u == v or w == v] for v in v1}

    def rec(i, f, used):
        if i == len(order):
            out.append(dict(f))
            return
        v = order[i]
        for w in cand[v]:
            if w in used:
                continue
            f[v] = w
            ok = True
            for (x, y) in arcs_of[v]:
                if x in f and y in f:
                    if (f[x], f[y]) not in a2 or a2[(f[x], f[y])] != a1[(x, y)]:
                        ok = False
                        break
            if ok:
                used.add(w)
                rec(i + 1, f, used)
                used.discard(w)
            del f[v]

    rec(0, {}, set())
    return out


def orbits_of(maps, nodes):
    parent = {v: v for v in nodes}

    def find(x):
        while parent[x] != x:
            x = parent[x]
        return x

    for f in maps:
        for a, b in f.items():
            parent[find(a)] = find(b)
    cl = {}
    for v in nodes:
        cl.setdefault(find(v), set()).add(v)
    return sorted(sorted(map(str, s)) for s in cl.values())


class IdStub:
    def __init__(self, mode):
        self.mode, self.k = mode, 0

    def __call__(self, obj):
        if self.mode == "same":
            return 42
        self.k += 1
        return self.k


def canon_summary(hg, include_rule, include_stoich, idmode):
    from synkit.CRN.Topo import canon as cmod

    c = cmod.CRNCanonicalizer(hg, include_rule=include_rule, include_stoich=include_stoich)
    if idmode is None:
        return c, c.summary()
    old = cmod.__dict__.get("id")
    cmod.id = IdStub(idmode)
    try:
        return c, c.summary()
    finally:
        if old is None:
            del cmod.id
        else:
            cmod.id = old


def h_canon(E, ns, nr, cmax, unit_ring=None, fixed=None, rho=False):
    from synkit.CRN.Topo.automorphism import CRNAutomorphism

    rx = build(E, "", ns, nr, cmax, NAMES, unit_ring=unit_ring, fixed=fixed)
    n_rx = len(rx)
    ns_eff = unit_ring or ns
    pi = [int(x) for x in E.perm("pi", ns_eff)]
    hg1 = make_hg(rx, NAMES, "r", list(range(n_rx)))
    # the second listing of the same network: reversed reaction order, or (rho) a solver-chosen reaction order
    order2 = [int(x) for x in E.perm("rho", n_rx)] if rho else list(reversed(range(n_rx)))
    hg2 = make_hg(rx, [ALT[pi[i]] for i in range(ns_eff)], "q", order2)
    info = dict(reactions=rx, renaming=pi, reaction_order=order2)
    any_aut = False
    for include_rule, include_stoich in ((True, True), (True, False), (False, True)):
        view = dict(include_rule=include_rule, include_stoich=include_stoich)
        c1, s1 = canon_summary(hg1, include_rule, include_stoich, "fresh")
        c2, s2 = canon_summary(hg2, include_rule, include_stoich, "same")
        c3, s3 = canon_summary(hg1, include_rule, include_stoich, None)
        nk, ek = c1.node_attr_keys, c1.edge_attr_keys
        G1, C1, C2, C3 = ref_view(rx, NAMES, include_rule, include_stoich), s1["canon_graph"], s2["canon_graph"], s3["canon_graph"]
        E.check(not iso_maps(G1, c1.G, nk, ek), "analysed-view-is-the-requested-view", dict(info, view=view))
        E.check(not iso_maps(G1, C1, nk, ek), "canonical-graph-is-isomorphic-to-the-view", dict(info, view=view))
        E.check(covered(C1, nk, ek) != covered(C2, nk, ek), "renamed-network-gets-the-identical-canonical-graph",
                dict(info, view=view, c1=sorted(C1.edges), c2=sorted(C2.edges)))
        E.check(covered(C1, nk, ek) != covered(C3, nk, ek), "canonical-graph-depends-on-id-values", dict(info, view=view))
        auts = iso_maps(G1, G1, nk, ek)
        any_aut = any_aut or len(auts) > 1
        E.check(s1["automorphism_count"] != len(auts) or s3["automorphism_count"] != len(auts),
                "automorphism-count-is-exact", dict(info, view=view, got=s1["automorphism_count"], want=len(auts)))
        got_orb = sorted(sorted(map(str, o)) for o in s1["orbits"])
        to_code = (iso_maps(G1, c1.G, nk, ek) or [None])[0]
        if to_code is not None:
            want_orb = orbits_of([{to_code[a]: to_code[b] for a, b in f.items()} for f in auts], list(c1.G.nodes))
            E.check(got_orb != want_orb, "orbits-are-exact", dict(info, view=view, got=got_orb, want=want_orb))
        # VF2-based helper: compares node kinds and arcs only
        a = CRNAutomorphism(hg1, include_rule=include_rule, include_stoich=include_stoich)
        sa = a.summary(max_count=1000, timeout_sec=None)
        Ga = ref_view(rx, NAMES, include_rule, include_stoich)
        E.check(not iso_maps(Ga, a.G, a.node_attr_keys, ()), "analysed-view-is-the-requested-view", dict(info, view=view, api="vf2"))
        auts_a = iso_maps(Ga, Ga, a.node_attr_keys, ())
        cnt = sa.get("automorphism_count", sa.get("count", sa.get("n_automorphisms")))
        E.check(cnt is not None and cnt != len(auts_a), "vf2-automorphism-count-is-exact",
                dict(info, view=view, got=cnt, want=len(auts_a), keys=sorted(sa)))
        ob = sa.get("orbits")
        if ob is not None:
            back = iso_maps(Ga, a.G, a.node_attr_keys, ())
            size_prof = lambda orbs: sorted(len(o) for o in orbs)
            E.check(size_prof(ob) != size_prof(orbits_of(auts_a, list(Ga.nodes))) or not back,
                    "vf2-orbits-are-exact", dict(info, view=view))
    E.note(nontrivial=any_aut or pi != sorted(pi))
    E.observe((sorted(map(str, s1["canon_graph"].edges)), s1["automorphism_count"]))


def h_pair(E, ns, nr, cmax):
    """two independent networks: identical canonical graphs <=> isomorphic views."""
    rxa = build(E, "a", ns, nr, cmax, NAMES)
    rxb = build(E, "b", ns, nr, cmax, NAMES)
    hga = make_hg(rxa, NAMES, "r", list(range(nr)))
    hgb = make_hg(rxb, ALT, "q", list(reversed(range(nr))))
    info = dict(a=rxa, b=rxb)
    for include_rule, include_stoich in ((True, True), (True, False), (False, True)):
        ca, sa = canon_summary(hga, include_rule, include_stoich, None)
        cb, sb = canon_summary(hgb, include_rule, include_stoich, None)
        nk, ek = ca.node_attr_keys, ca.edge_attr_keys
        same = covered(sa["canon_graph"], nk, ek) == covered(sb["canon_graph"], nk, ek)
        iso = bool(iso_maps(ref_view(rxa, NAMES, include_rule, include_stoich), ref_view(rxb, ALT, include_rule, include_stoich), nk, ek))
        view = dict(include_rule=include_rule, include_stoich=include_stoich)
        E.check(same and not iso, "non-isomorphic-views-get-identical-canonical-graphs", dict(info, view=view))
        E.check(iso and not same, "isomorphic-views-get-different-canonical-graphs", dict(info, view=view))
    E.note(nontrivial=rxa != rxb)
    E.observe(None)


HARNESSES = {"canon": h_canon, "pair": h_pair}


def shards(tier, seed):
    sh = [
        dict(h="canon", params=dict(ns=2, nr=1, cmax=2)),
        dict(h="canon", params=dict(ns=3, nr=1, cmax=2)),
        dict(h="canon", params=dict(ns=2, nr=2, cmax=2)),
        dict(h="canon", params=dict(ns=3, nr=2, cmax=1)),
        dict(h="canon", params=dict(ns=2, nr=3, cmax=1)),
        dict(h="canon", params=dict(ns=3, nr=0, cmax=0, unit_ring=3)),
        dict(h="pair", params=dict(ns=2, nr=1, cmax=2)),
        dict(h="pair", params=dict(ns=2, nr=2, cmax=1)),
    ]
    # concrete, highly symmetric networks (several refinement cells of equal size / cells that are not one orbit) under
    # every renaming and, in the thorough tier, every reaction order
    k22 = [[{"0": 1}, {"2": 1}], [{"0": 1}, {"3": 1}], [{"1": 1}, {"3": 1}], [{"1": 1}, {"2": 1}]]
    rings23 = [[{"0": 1}, {"1": 1}], [{"1": 1}, {"0": 1}], [{"2": 1}, {"3": 1}], [{"3": 1}, {"4": 1}], [{"4": 1}, {"2": 1}]]
    rev_pairs = [[{"0": 1}, {"1": 1}], [{"1": 1}, {"0": 1}], [{"2": 1}, {"3": 1}], [{"3": 1}, {"2": 1}], [{"1": 1}, {"3": 1}], [{"2": 1}, {"0": 1}]]
    sh.append(dict(h="canon", params=dict(ns=4, nr=4, cmax=1, fixed=k22, rho=False)))
    sh.append(dict(h="canon", params=dict(ns=5, nr=5, cmax=1, fixed=rings23, rho=False)))
    sh.append(dict(h="canon", params=dict(ns=4, nr=6, cmax=1, fixed=rev_pairs, rho=False)))
    if tier == "thorough":
        sh += [
            dict(h="canon", params=dict(ns=4, nr=4, cmax=1, fixed=k22, rho=True)),
            dict(h="canon", params=dict(ns=5, nr=5, cmax=1, fixed=rings23, rho=True)),
            dict(h="canon", params=dict(ns=3, nr=2, cmax=2)),
            dict(h="canon", params=dict(ns=3, nr=3, cmax=1)),
            dict(h="canon", params=dict(ns=4, nr=2, cmax=1)),
            dict(h="canon", params=dict(ns=4, nr=0, cmax=0, unit_ring=4)),
            dict(h="pair", params=dict(ns=3, nr=1, cmax=1)),
            dict(h="pair", params=dict(ns=2, nr=2, cmax=2)),
        ]
    return sh
