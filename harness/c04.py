"""C04 — applying a reaction's own template regenerates it, forwards and backwards."""
from __future__ import annotations

import networkx as nx

from symx import AND, OR, NOT, EQ, SUM
from vf.graphs import relabel
from harness.reactor_common import (ALPHABET, sym_reaction, plain_substrate, its_iso, its_same, reactor, regenerated, sym_xh_reaction,  # noqa
                                    family_reaction, FAMILIES)

PROPERTY = "C04"

META = dict(
    bounds=dict(
        quick="all balanced reactions on n=2 atoms (element {C,O}, hcount per side 0..2, charge per side 0..1, order per side "
              "0..2) and on n=3 atoms (hcount 0..1, charge 0, orders 0..2); template = reaction centre and full ITS, under "
              "a solver-chosen renumbering of the template; forward on the reactants and invert=True on the products; "
              "strategy all, and comp/bt where the component-aware semantics admit the identity placement; plus concrete families "
              "with a symmetric centre and symbolic substituents: [2+2] cycloaddition (4-atom centre), allylic shift (3 atoms) "
              "[thorough: Diels-Alder, 6 atoms]; explicit-hydrogen branch of the precondition: keto-enol shift, esterification (with a non-migrating explicit hydrogen) and imine condensation (two hydrogens moving between the same pair of atoms), centre and full-ITS template, forward [thorough: MPV, deprotonation, and all of them backwards], reductive amination (C=O + H-N + H-H -> CH-N + H2O) forwards and backwards; and symbolically: 2 heavy atoms (element {C,O}, implicit count 0..1 equal on both sides, bond order per side 0..1) with 1-3 explicit hydrogens, each bonded per side to a solver-chosen heavy atom or (first two) to each other as H-H, at least one changing partner, centre and full ITS, forwards and backwards",
        thorough="n=3 with charges, n=4 (hcount 0..1, charge 0, orders 0..1) for the centre template; explicit-hydrogen symbolic reactions with 3 heavy atoms and 1 explicit hydrogen",
    ),
    outside=["SMILES rewriting of the reaction, Standardize comparison (RDKit): 'the reaction is among the results' is decided on graphs - a result isomorphic to the reaction's ITS, or (the weaker reading the standardised, atom-map-free SMILES comparison allows) a result with the same unmapped reactants and products",
             "explicit-hydrogen reactions with 3 heavy atoms and >= 2 explicit hydrogens beyond the listed families (not exhausted within the budget), hydrogens bonded to two atoms, free protons other than the deprotonation family", "explicit-hydrogen templates beyond the listed families",
             "reactions whose centre is empty"],
    stubs=["NoCanon canonicaliser passed through the public canonicaliser= parameter"],
    assumptions=["balanced reaction: same atoms and elements on both sides, equal hydrogen and charge totals",
                 "no centre hydrogen explicit => implicit-hydrogen mode (implicit_temp=True, explicit_h=False)",
                 "centre template: every atom whose hcount or charge changes is incident to a changed bond (otherwise the "
                 "centre does not describe the reaction)",
                 "comp/bt: regeneration is demanded only when the identity placement puts different template components "
                 "into different substrate components and the documented strict component-count guard passes"],
    rule="one evaluation = one symbolic path; non-trivial = the centre has at least two atoms and the run proposed at least "
         "one reaction",
)
WALL = dict(quick=240, thorough=1500)
MIN_PATHS = dict(quick=200, thorough=2000)


def comp_admits_identity(pattern_left, substrate):
    """component-aware semantics: identity placement is component-distinct and the strict guard passes."""
    pcs = list(nx.connected_components(pattern_left))
    hcs = list(nx.connected_components(substrate))
    if len(hcs) < len(pcs):
        return True  # falls back to the exhaustive search
    if len(hcs) > len(pcs):
        return False  # strict_cc_count guard: nothing is returned
    hidx = {v: i for i, c in enumerate(hcs) for v in c}
    used = {}
    for i, c in enumerate(pcs):
        hs = {hidx[v] for v in c}
        if len(hs) != 1:
            return False
        h = hs.pop()
        if used.setdefault(h, i) != i:
            return False
    return True


def h_own(E, n, kind, direction, hmax=2, cs=(0, 1), omax=2):
    from synkit.Graph.ITS.its_construction import ITSConstruction
    from synkit.Graph.ITS.its_decompose import get_rc, its_decompose

    G, H, rs = sym_reaction(E, "r", n, hs=tuple(range(hmax + 1)), cs=cs, orders=tuple(range(omax + 1)))
    nodes = list(G.nodes)
    E.assume(AND(EQ(SUM([rs["h"]["G", v] for v in nodes]), SUM([rs["h"]["H", v] for v in nodes])),
                 EQ(SUM([rs["c"]["G", v] for v in nodes]), SUM([rs["c"]["H", v] for v in nodes]))))
    its = ITSConstruction.ITSGraph(G, H)
    rc = get_rc(its)
    if rc.number_of_nodes() == 0:
        E.note(nontrivial=False)
        return
    if kind == "rc":
        outside = [v for v in nodes if v not in rc]
        E.assume(AND([AND(EQ(rs["h"]["G", v], rs["h"]["H", v]), EQ(rs["c"]["G", v], rs["c"]["H", v])) for v in outside]))
        tmpl = rc
    else:
        tmpl = its
    # renumber the template (solver-chosen bijection onto fresh ids)
    tn = list(tmpl.nodes)
    sigma = [int(x) for x in E.perm("sigma", len(tn))]
    mp = {v: 21 + sigma[i] for i, v in enumerate(tn)}
    tmpl_r = relabel(tmpl, mp, order=[v for _, v in sorted(zip(sigma, tn))])
    for v in tmpl_r.nodes:
        tmpl_r.nodes[v]["atom_map"] = v
    if direction == "fwd":
        sub, want, invert = plain_substrate(G), its, False
        pat_left = its_decompose(tmpl)[0]
    else:
        sub, want, invert = plain_substrate(H), ITSConstruction.ITSGraph(H, G), True
        pat_left = its_decompose(tmpl)[1]
    info = dict(n=n, kind=kind, direction=direction, centre=sorted(rc.nodes), sigma=sigma)
    n_res = 0
    for strategy in ("all", "comp", "bt"):
        if strategy != "all" and not comp_admits_identity(pat_left, sub):
            continue
        res = reactor(sub, tmpl_r, strategy, invert).its_list
        n_res = max(n_res, len(res))
        E.check(NOT(regenerated(E, res, want)), "own-template-regenerates-the-reaction",
                dict(info, strategy=strategy, n_results=len(res)))
    E.note(nontrivial=rc.number_of_nodes() >= 2 and n_res > 0)
    E.observe(n_res)


def h_family(E, family, direction):
    """own-template regeneration for concrete reaction families whose centre is symmetric while the substituents around it
    are symbolic (the centre template has >= 3-6 atoms with identical labels)."""
    from synkit.Graph.ITS.its_construction import ITSConstruction
    from synkit.Graph.ITS.its_decompose import get_rc

    G, H = family_reaction(E, family)
    its = ITSConstruction.ITSGraph(G, H)
    rc = get_rc(its)
    tn = list(rc.nodes)
    sigma = [int(x) for x in E.perm("sigma", len(tn))] if len(tn) <= 4 else [(i * 5 + 2) % len(tn) for i in range(len(tn))]
    base = sorted(tn)
    tmpl = relabel(rc, {v: base[sigma[i]] for i, v in enumerate(tn)}, order=[v for _, v in sorted(zip(sigma, tn))])
    for v in tmpl.nodes:
        tmpl.nodes[v]["atom_map"] = v
    if direction == "fwd":
        sub, want, invert = plain_substrate(G), its, False
    else:
        sub, want, invert = plain_substrate(H), ITSConstruction.ITSGraph(H, G), True
    res = reactor(sub, tmpl, "all", invert).its_list
    info = dict(family=family, direction=direction, sigma=sigma, n_results=len(res))
    cheap = OR([its_same(r, want) for r in res])
    if E.feasible(NOT(cheap)):
        E.check(NOT(regenerated(E, res, want)), "own-template-regenerates-the-reaction", info)
    else:
        E.check(False, "own-template-regenerates-the-reaction", info)
    E.note(nontrivial=len(res) > 1)
    E.observe(len(res))


def h_family_xh(E, family, kind, direction="fwd", renumber=False):
    """the precondition's other branch: all centre hydrogens are written explicitly.  Concrete reactions (keto-enol shift,
    MPV transfer hydrogenation, esterification with an additional non-migrating explicit hydrogen) with symbolic
    substituents; template = centre or full ITS; default reactor flags (explicit_h=True); the reaction must be among the
    results of the forward application to the implicit-hydrogen reactants."""
    import networkx as nx

    from synkit.Graph.ITS.its_construction import ITSConstruction
    from synkit.Graph.ITS.its_decompose import get_rc, its_decompose
    from synkit.Graph.Hyrogen._misc import h_to_implicit
    from synkit.Synthesis.Reactor.syn_reactor import SynReactor
    from harness.c03 import XH_FAMILIES
    from harness.reactor_common import NoCanon

    fam = XH_FAMILIES[family]
    heavy = sorted(fam["heavy"])
    subs = sorted({v for b in fam["sub_bonds"] for v in b[:2]} - set(heavy))
    lab = {}
    for v in heavy:
        lab[v] = (fam["heavy"][v], fam["sub_h"][v] - sum(1 for (a, b, o) in fam["G"] if v in (a, b) and (a in fam["hyd"] or b in fam["hyd"])))
    for v in subs:
        lab[v] = (E.choice("sel%d" % v, ["C", "O"]), E.int("sh%d" % v, 0, 1))
    # the reaction with its hydrogens written as in the family: explicit H nodes + remaining implicit counts
    G, H = nx.Graph(), nx.Graph()
    for g, bonds in ((G, fam["G"]), (H, fam["H"])):
        for v in heavy + subs:
            g.add_node(v, element=lab[v][0], aromatic=False, hcount=lab[v][1], charge=0, atom_map=v)
        for v in fam["hyd"]:
            g.add_node(v, element="H", aromatic=False, hcount=0, charge=0, atom_map=v)
        for a, b, o in bonds:
            g.add_edge(a, b, order=o)
        for a, b, o in fam["sub_bonds"]:
            if a in subs or b in subs:
                g.add_edge(a, b, order=o)
    for v, c in fam.get("charge_H", {}).items():
        H.nodes[v]["charge"] = c
    for v, c in fam.get("charge_G", {}).items():
        G.nodes[v]["charge"] = c
    _regenerates_xh(E, G, H, fam["hyd"], kind, direction, dict(family=family, kind=kind, direction=direction),
                    renumber=renumber)


def _regenerates_xh(E, G, H, hyd, kind, direction, info, strategies=("all",), renumber=False):
    """(G, H) with explicit hydrogen nodes `hyd`: the template of the reaction, applied with the default reactor flags to the
    molecule as an unmapped SMILES gives it, must have the reaction among its results."""
    from synkit.Graph.ITS.its_construction import ITSConstruction
    from synkit.Graph.ITS.its_decompose import get_rc
    from synkit.Synthesis.Reactor.syn_reactor import SynReactor
    from harness.reactor_common import NoCanon

    its = ITSConstruction.ITSGraph(G, H)
    tmpl = get_rc(its) if kind == "rc" else its
    if renumber:
        # the same reaction written with other atom-map numbers and another atom order: heavy atoms of the template are
        # permuted among their ids (solver-chosen), nodes inserted in the order of the new ids
        heavy_t = sorted(v for v in tmpl.nodes if v not in hyd)
        sigma = [int(x) for x in E.perm("sigma", len(heavy_t))]
        mp = {v: heavy_t[sigma[i]] for i, v in enumerate(heavy_t)}
        mp.update({v: v for v in tmpl.nodes if v in hyd})
        tmpl = relabel(tmpl, mp, order=sorted(tmpl.nodes, key=lambda v: (mp[v] in hyd, mp[v])))
        for v in tmpl.nodes:
            tmpl.nodes[v]["atom_map"] = v
        info = dict(info, sigma=sigma)

    def as_parsed(g):
        """hydrogens on heavy atoms are counts, H-H and a free proton are atoms"""
        g2 = g.copy()
        for v in hyd:
            heavy_nb = [w for w in g2.neighbors(v) if g2.nodes[w]["element"] != "H"]
            if heavy_nb:
                g2.nodes[heavy_nb[0]]["hcount"] = g2.nodes[heavy_nb[0]]["hcount"] + 1
                g2.remove_node(v)
        return g2

    if direction == "fwd":
        sub, want_raw, invert = as_parsed(G), its, False
    else:
        sub, want_raw, invert = as_parsed(H), ITSConstruction.ITSGraph(H, G), True
    for v in sub.nodes:
        sub.nodes[v]["atom_map"] = 0
        sub.nodes[v]["neighbors"] = []
    # how many spectator hydrogens a result writes as nodes is not part of the reaction: compare after folding every
    # hydrogen whose only bond is an unchanged single bond to a heavy atom into that atom's count on both sides
    want = fold_spectator_h(want_raw)
    n_res = 0
    for strategy in strategies:
        res = SynReactor(substrate=sub, template=tmpl, canonicaliser=NoCanon(), strategy=strategy, invert=invert).its_list
        n_res = max(n_res, len(res))
        E.check(NOT(regenerated(E, res, want, fold_spectator_h)), "own-template-regenerates-the-reaction",
                dict(info, strategy=strategy, n_results=len(res)))
    E.note(nontrivial=n_res > 0)
    E.observe(n_res)


def h_own_xh(E, n, nh, kind, direction, omax=1, free=False):
    """all centre hydrogens explicit, symbolically: n heavy atoms (symbolic element, implicit count equal on both sides,
    bond orders per side) and nh explicit hydrogens, each bonded on either side to a solver-chosen heavy atom or (nh=2) to
    the other hydrogen (H-H); at least one hydrogen changes its partner."""
    from synkit.Graph.ITS.its_construction import ITSConstruction
    from synkit.Graph.ITS.its_decompose import get_rc

    G, H, hyd, att = sym_xh_reaction(E, n, nh, omax, free=free)
    if kind == "rc":  # the centre describes the reaction only if every atom that changes is in it
        rc = get_rc(ITSConstruction.ITSGraph(G, H))
        E.assume(AND([EQ(G.nodes[v]["charge"], H.nodes[v]["charge"]) for v in G.nodes if v not in rc]))
    _regenerates_xh(E, G, H, hyd, kind, direction,
                    dict(n=n, nh=nh, kind=kind, direction=direction, attach={"%s%d" % k: v for k, v in att.items()}))


def fold_spectator_h(its):
    g = its.copy()
    for v in list(g.nodes):
        t = g.nodes[v]["typesGH"]
        if t[0][0] != "H" or t[1][0] != "H" or g.degree(v) != 1:
            continue
        (w,) = list(g.neighbors(v))
        o = g[v][w]["order"]
        tw = g.nodes[w]["typesGH"]
        if tuple(o) != (1, 1) or tw[0][0] == "H" or t[0][3] != 0 or t[1][3] != 0:
            continue
        g.nodes[w]["typesGH"] = (tuple(tw[0][:2]) + (tw[0][2] + 1,) + tuple(tw[0][3:]),
                                 tuple(tw[1][:2]) + (tw[1][2] + 1,) + tuple(tw[1][3:]))
        g.remove_node(v)
    return g


HARNESSES = {"own": h_own, "family": h_family, "family_xh": h_family_xh, "own_xh": h_own_xh}


def shards(tier, seed):
    sh = []
    for kind in ("rc", "its"):
        for direction in ("fwd", "bwd"):
            sh.append(dict(h="own", params=dict(n=2, kind=kind, direction=direction)))
            sh.append(dict(h="own", params=dict(n=3, kind=kind, direction=direction, hmax=1, cs=[0], omax=2 if kind == "rc" else 1)))
    for fam in ("2+2", "ene-shift") + (("DA",) if tier == "thorough" else ()):
        for direction in ("fwd", "bwd"):
            sh.append(dict(h="family", params=dict(family=fam, direction=direction)))
    for fam in ("enol", "ester", "imine") + (("MPV", "deprot") if tier == "thorough" else ()):
        for kind in ("rc", "its"):
            sh.append(dict(h="family_xh", params=dict(family=fam, kind=kind)))
    # a template atom that keeps an implicit hydrogen next to an explicit one (reductive amination backwards: water's
    # two hydrogens go to N and to H-H)
    for kind in ("rc", "its"):
        for direction in ("fwd", "bwd"):
            sh.append(dict(h="family_xh", params=dict(family="redam", kind=kind, direction=direction)))
    sh.append(dict(h="family_xh", params=dict(family="ncouple", kind="rc", direction="fwd", renumber=True)))
    for nh in (1, 2, 3):
        for kind in ("rc", "its"):
            for direction in ("fwd", "bwd"):
                sh.append(dict(h="own_xh", params=dict(n=2, nh=nh, kind=kind, direction=direction)))
    for nh in (1, 2):
        for kind in ("rc", "its"):
            for direction in ("fwd", "bwd"):
                sh.append(dict(h="own_xh", params=dict(n=1 if nh == 2 else 2, nh=nh, kind=kind, direction=direction, free=True, omax=0)))
                sh.append(dict(h="own_xh", params=dict(n=nh, nh=4 - nh, kind=kind, direction=direction, free=True, omax=0)))
    if tier == "thorough":
        for kind in ("rc", "its"):
            for direction in ("fwd", "bwd"):
                sh.append(dict(h="own_xh", params=dict(n=3, nh=1, kind=kind, direction=direction)))
        for fam in ("enol", "ester", "imine", "MPV", "deprot"):
            for kind in ("rc", "its"):
                sh.append(dict(h="family_xh", params=dict(family=fam, kind=kind, direction="bwd")))
    if tier == "thorough":
        for kind in ("rc", "its"):
            for direction in ("fwd", "bwd"):
                sh.append(dict(h="own", params=dict(n=3, kind=kind, direction=direction, hmax=1, cs=[0, 1], omax=2)))
        sh.append(dict(h="own", params=dict(n=4, kind="rc", direction="fwd", hmax=1, cs=[0], omax=1)))
        sh.append(dict(h="own", params=dict(n=4, kind="rc", direction="bwd", hmax=1, cs=[0], omax=1)))
    return sh
