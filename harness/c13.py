"""C13 — clustering partitions graphs exactly into isomorphism classes."""
from __future__ import annotations

import itertools

from symx import AND, OR, NOT, EQ, IFF
from vf.graphs import sym_mol, iso_formula

PROPERTY = "C13"
ALPHABET = ["C", "N", "O", "*"]
POOL = {
    "K2": (2, [(1, 2)]),
    "E2": (2, []),
    "P3": (3, [(1, 2), (2, 3)]),
    "K3": (3, [(1, 2), (1, 3), (2, 3)]),
    "K2K1": (3, [(1, 2)]),
    "K1": (1, []),
    "P4": (4, [(1, 2), (2, 3), (3, 4)]),
    "C5": (5, [(1, 2), (2, 3), (3, 4), (4, 5), (1, 5)]),
}

META = dict(
    bounds=dict(
        quick="lists of 2 and 3 graphs drawn from the shapes {K1, K2, 2K1, P3, K3, K2+K1} plus three all-carbon 4-chains with symbolic bond orders and three all-carbon 5-rings with exactly two double bonds each (equal composition, different placement) (equal shapes with independent "
              "symbolic labels, so duplicates, relabelled copies and near-misses all arise as label assignments); element "
              "in {C,N}, charge in {0,1}, order in {1,2}; pre-grouping attribute None or the node count; every list "
              "order (solver-chosen permutation); graphs on disjoint node ids and on one shared id set; representative library in arrival and in reversed order; batch sizes 1..m and one-shot; incremental lib_check; triangles numbered from 0; additionally a few two-/three-atom shards with charges in {-2,-1}: different labels whose hash() values coincide in CPython.",
        thorough="lists of up to 4 graphs",
    ),
    outside=["GML-string rules through the optional 'mod' backend", "lists longer than 4, graphs > 3 nodes",
             "pre-grouping attributes that are not isomorphism-invariant (excluded by the property)"],
    stubs=[],
    assumptions=["pre-grouping attribute is a str ('n<number of nodes>') or absent, as the clustering code requires"],
    rule="one evaluation = one symbolic path through the pairwise VF2 comparisons; non-trivial = at least two graphs share "
         "a class and at least two do not, or m=2",
)
WALL = dict(quick=240, thorough=1500)
MIN_PATHS = dict(quick=200, thorough=2000)


def _iso(ga, gb):
    return iso_formula(ga, gb,
                       lambda u, v: AND(EQ(ga.nodes[u]["element"], gb.nodes[v]["element"]),
                                        EQ(ga.nodes[u]["charge"], gb.nodes[v]["charge"])),
                       lambda e, f: EQ(ga[e[0]][e[1]]["order"], gb[f[0]][f[1]]["order"]))


def partition(classes):
    d = {}
    for i, c in enumerate(classes):
        d.setdefault(c, set()).add(i)
    return {frozenset(s) for s in d.values()}


def h_cluster(E, shapes, use_attr, same_ids=False, carbon_only=False, doubles=None, neg=False, free_attr=False, zero=False):
    from synkit.Graph.Matcher.graph_cluster import GraphCluster
    from synkit.Graph.Matcher.batch_cluster import BatchCluster

    m = len(shapes)
    graphs = []
    for i, sname in enumerate(shapes):
        n, es = POOL[sname]
        g, _ = sym_mol(E, "g%d" % i, n, es, elements=("C",) if carbon_only else ("C", "N"), hcounts=(0,),
                       charges=(-2, -1) if neg else ((0,) if carbon_only else (0, 1)), orders=(1, 2),
                       node_ids=[(0 if same_ids else 10 * i) + k + (0 if zero else 1) for k in range(n)])
        if doubles is not None:
            # exactly `doubles` double bonds per graph: same composition, different placement
            from symx import COUNT

            E.assume(EQ(COUNT([EQ(g[u][v]["order"], 2) for u, v in g.edges]), doubles))
        graphs.append(g)
    att = (lambda g: "n%d" % g.number_of_nodes()) if use_attr else (lambda g: None)
    akey = "att" if use_attr else None
    tags = None
    if free_attr:
        # a pre-grouping attribute that is NOT determined by the graph (solver-chosen per item, possibly the empty string):
        # outside C13's precondition, but batched and one-shot clustering must still agree (C14); classes are then the
        # isomorphism classes within each attribute group
        tags = {id(g): str(E.choice("att%d" % i, ["", "x"])) for i, g in enumerate(graphs)}
        att = lambda g: tags[id(g)]
        akey = "att"

    def mk(order):
        return [dict(g=graphs[i], att=att(graphs[i]), idx=i) for i in order]

    iso = {(i, j): _iso(graphs[i], graphs[j]) for i in range(m) for j in range(i + 1, m)}
    if tags is not None:
        iso = {(i, j): (f if tags[id(graphs[i])] == tags[id(graphs[j])] else False) for (i, j), f in iso.items()}

    def judge(entries, clause, extra=None):
        cls = {e["idx"]: e.get("class") for e in entries}
        bad = [any(cls[i] is None for i in range(m))]
        for (i, j), f in iso.items():
            same = cls[i] == cls[j]
            bad.append(NOT(f) if same else f)
        E.check(OR(bad), clause, dict(shapes=shapes, classes=[cls[i] for i in range(m)], extra=extra))
        return partition([cls[i] for i in range(m)])

    base = list(range(m))
    p0 = judge(GraphCluster().fit(mk(base), rule_key="g", attribute_key=akey), "one-shot-classes-are-isomorphism-classes")
    # every list order gives the same partition
    perm = [int(x) for x in E.perm("ord", m)]
    p1 = judge(GraphCluster().fit(mk(perm), rule_key="g", attribute_key=akey), "classes-after-reordering", dict(order=perm))
    E.check(p0 != p1, "partition-depends-on-list-order", dict(order=perm))
    # batched versus one-shot
    for bs in list(range(1, m + 1)) + [None]:
        data, templates = BatchCluster().fit(mk(perm), [], rule_key="g", attribute_key=akey, batch_size=bs)
        pb = judge(data, "batched-classes-are-isomorphism-classes", dict(batch_size=bs, order=perm))
        E.check(pb != p0, "batched-partition-differs-from-one-shot", dict(batch_size=bs))
        tcls = [t.get("class") for t in templates]
        E.check(len(set(tcls)) != len(tcls) or len(tcls) != len(p0), "one-template-per-class", dict(batch_size=bs, templates=tcls))
    # batched classification against a library that already exists and is held in another order (re-sorted / reloaded)
    if m >= 3:
        first, rest = perm[:-1], perm[-1:]
        d0, lib = BatchCluster().fit(mk(first), [], rule_key="g", attribute_key=akey, batch_size=None)
        lib_cls = {t["idx"]: t["class"] for t in lib}
        known = {e["idx"]: e["class"] for e in d0}
        lib_rev = [dict(t) for t in reversed(lib)]
        for bs in (1, 2):
            d1, lib2 = BatchCluster().fit(mk(rest + first[:1]), [dict(t) for t in lib_rev], rule_key="g", attribute_key=akey,
                                          batch_size=bs)
            c_new = {e["idx"]: e["class"] for e in d1}
            i = rest[0]
            bad = []
            match_any = []
            for j, cj in known.items():
                f = iso[(min(i, j), max(i, j))]
                match_any.append(f)
                bad.append(NOT(f) if c_new[i] == cj else f)
            bad.append(AND(NOT(OR(match_any)), c_new[i] in set(known.values())))
            bad.append(c_new[first[0]] != known[first[0]])
            E.check(OR(bad), "batched-classification-against-an-existing-library", dict(batch_size=bs, arrival=perm, new=c_new,
                                                                                        library=sorted(known.items())))
    # incremental classification in arrival order; the representative library may be held in any order
    # (re-ordered / reloaded from a keyed store): before the last arrival it is reversed
    bc = BatchCluster()
    templates = []
    seen = []
    for pos, i in enumerate(perm):
        entry = dict(g=graphs[i], att=att(graphs[i]), idx=i)
        if pos == m - 1 and m >= 3:
            templates = list(reversed(templates))
        entry, templates = bc.lib_check(entry, templates, rule_key="g", attribute_key=akey)
        c = entry.get("class")
        bad = []
        prev_classes = {pc for _, pc in seen}
        match_any = []
        for j, cj in seen:
            f = iso[(min(i, j), max(i, j))]
            match_any.append(f)
            # joins the class of an isomorphic earlier item, and of no non-isomorphic one
            bad.append(NOT(f) if c == cj else f)
        bad.append(AND(NOT(OR(match_any)), c in prev_classes))
        E.check(OR(bad), "incremental-item-joins-its-isomorphic-class-or-a-fresh-one", dict(arrival=perm, item=i, cls=c))
        seen.append((i, c))
    # the same classifier object against a second, independent library of the same length (classes numbered in the
    # opposite arrival order): every item must get the class of its isomorphic representative *in that library*
    if m >= 2:
        lib2 = []
        other = BatchCluster()
        cls2 = {}
        for i in reversed(perm):
            e2, lib2 = other.lib_check(dict(g=graphs[i], att=att(graphs[i]), idx=i), lib2, rule_key="g", attribute_key=akey)
            cls2[i] = e2["class"]
        if len(lib2) == len(templates):
            for i in perm:
                e3, _ = bc.lib_check(dict(g=graphs[i], att=att(graphs[i]), idx=i), [dict(t) for t in lib2], rule_key="g",
                                     attribute_key=akey)
                E.check(e3["class"] != cls2[i], "classifier-object-re-used-against-another-library",
                        dict(arrival=perm, item=i, got=e3["class"], want=cls2[i]))
    E.note(nontrivial=(m == 2) or (1 < len(p0) < m))
    E.observe(sorted(sorted(s) for s in p0))


HARNESSES = {"cluster": h_cluster}


def shards(tier, seed):
    sh = []
    names = ["K1", "K2", "E2", "P3", "K3", "K2K1"]
    for a, b in itertools.combinations_with_replacement(names, 2):
        if POOL[a][0] == POOL[b][0] and len(POOL[a][1]) == len(POOL[b][1]) or (a, b) in (("K2", "E2"), ("P3", "K2K1")):
            sh.append(dict(h="cluster", params=dict(shapes=[a, b], use_attr=(a == b))))
            if a == b:
                sh.append(dict(h="cluster", params=dict(shapes=[a, b], use_attr=False, same_ids=True)))
    triples = [["K2", "K2", "K2"], ["E2", "E2", "E2"], ["K2", "E2", "K2"], ["P3", "P3", "P3"], ["K2K1", "K2K1", "P3"],
               ["K1", "K1", "K1"], ["P3", "K2", "P3"]]
    if tier == "thorough":
        triples += [["K3", "K3", "K3"], ["K2K1", "K2K1", "K2K1"], ["K3", "P3", "K3"]]
    sh.append(dict(h="cluster", params=dict(shapes=["P4", "P4", "P4"], use_attr=False, carbon_only=True)))
    sh.append(dict(h="cluster", params=dict(shapes=["C5", "C5", "C5"], use_attr=False, carbon_only=True, doubles=2)))
    # node ids starting at 0 (nx.convert_node_labels_to_integers): ring-shaped centres
    sh.append(dict(h="cluster", params=dict(shapes=["K3", "K3", "K3"], use_attr=False, same_ids=True, zero=True, carbon_only=True)))
    sh.append(dict(h="cluster", params=dict(shapes=["K3", "K3"], use_attr=True, zero=True, carbon_only=True)))
    # charges -1 / -2: different labels whose hash() values coincide in CPython
    sh.append(dict(h="cluster", params=dict(shapes=["K2", "K2", "K2"], use_attr=False, carbon_only=True, neg=True)))
    sh.append(dict(h="cluster", params=dict(shapes=["K1", "K1"], use_attr=True, carbon_only=True, neg=True)))
    sh.append(dict(h="cluster", params=dict(shapes=["K2", "P3", "E2"], use_attr=True)))
    sh.append(dict(h="cluster", params=dict(shapes=["P3", "K2", "K2K1"], use_attr=True)))
    for i, t in enumerate(triples):
        sh.append(dict(h="cluster", params=dict(shapes=t, use_attr=bool(i % 2), same_ids=(i % 3 == 0))))
    if tier == "thorough":
        for q in (["K2"] * 4, ["E2"] * 4, ["K2", "K2", "E2", "E2"], ["P3"] * 4, ["K1"] * 4):
            sh.append(dict(h="cluster", params=dict(shapes=q, use_attr=False)))
    return sh
