"""C08 — graph canonicalisation is faithful and sound; the exact back-end is invariant."""
from __future__ import annotations

import itertools

import networkx as nx

from symx import AND, OR, NOT, EQ
from vf.graphs import all_shapes, sym_mol, iso_formula, relabel

PROPERTY = "C08"
ALPHABET = ["C", "N", "O", "*", ""]
NODE_KEYS = ["element", "charge", "aromatic", "hcount"]
EDGE_KEYS = ["order"]
POOL_IDS = [7, 3, 12, 5, 9, 20, 15, 1]

META = dict(
    bounds=dict(
        quick="every graph on <=3 nodes with all relabelings (solver-chosen bijection onto an id pool x solver-chosen "
              "insertion order), 4-node graphs with <=4 bonds under all bijections and reversed insertion order, C4 and "
              "K4-e with fixed labels; element in {C,N}, hcount in {0,1}, order in {1,2}; back-ends generic, wl, morgan, "
              "nauty; rule-like graphs with pair-valued bond orders (3-chain, triangle, 4-ring; orders in {1,2}x{1,2}, all-carbon in the quick tier); the two-fold symmetric all-carbon dimer of the triangle (bicyclopropyl skeleton, 6 atoms, mirrored symbolic bond orders, single bridge bond in the quick tier) under every numbering [thorough: the dimers of the other rooted 3-atom graphs and one 8-atom dimer with single bonds]; both copies of the module; soundness/completeness on all pairs of equal-size graphs <=3 nodes; additionally a few two-/three-atom shards with charges in {-2,-1}: different labels whose hash() values coincide in CPython.",
        thorough="4-node graphs with all insertion orders, 5-node graphs (<=5 bonds) and C5, C6, K2,3 under solver-chosen "
                 "bijections; pairs up to 4 nodes",
    ),
    outside=["graphs > 6 nodes, the cube family", "SHA-256 truncation collisions (the digest is computed for real on the "
             "realised serialisation)", "CanonicalRule (GML front end, see C10)", "multigraphs / digraphs"],
    stubs=[],
    assumptions=["labels are formatted into strings by the canonicalisers, so every path is one realised labelled graph "
                 "and one realised relabelling: solver-driven exhaustion of the finite space"],
    rule="one evaluation = one realised (graph, relabelling) or (graph, graph) pair; non-trivial = the relabelling is not "
         "the identity / the two graphs are isomorphic",
)
WALL = dict(quick=240, thorough=1500)
MIN_PATHS = dict(quick=300, thorough=3000)


def canon_cls(copy):
    if copy == "Canon":
        from synkit.Graph.Canon.canon_graph import GraphCanonicaliser, CanonicalGraph
    else:
        from synkit.Graph.canon_graph import GraphCanonicaliser, CanonicalGraph
    return GraphCanonicaliser, CanonicalGraph


def full_iso(a, b):
    return iso_formula(a, b,
                       lambda u, v: AND([EQ(a.nodes[u].get(k), b.nodes[v].get(k)) for k in NODE_KEYS]),
                       lambda e, f: AND([EQ(a[e[0]][e[1]].get(k), b[f[0]][f[1]].get(k)) for k in EDGE_KEYS]))


def same_graph(a, b):
    if sorted(a.nodes) != sorted(b.nodes) or {frozenset(e) for e in a.edges} != {frozenset(e) for e in b.edges}:
        return False
    return AND([EQ(dict(a.nodes[v]), dict(b.nodes[v])) for v in a.nodes] +
               [EQ(dict(a[u][v]), dict(b[u][v])) for u, v in a.edges])


def faithful_bad(g, cg):
    n = g.number_of_nodes()
    if sorted(cg.nodes) != list(range(1, n + 1)) or cg.number_of_edges() != g.number_of_edges():
        return True
    # all attributes carried: iso on the full attribute dicts
    f = iso_formula(g, cg, lambda u, v: EQ(dict(g.nodes[u]), dict(cg.nodes[v])),
                    lambda e, h: EQ(dict(g[e[0]][e[1]]), dict(cg[h[0]][h[1]])))
    return NOT(f)


def build_dimer(E, pre, k, half_edges, orders=(1, 2), bridge=None):
    """two copies of a rooted graph on k all-carbon atoms (root = atom 1) joined root to root; the bond orders of a copy are
    symbolic and shared by the other copy, so the graph keeps its two-fold symmetry: every orbit has two atoms and
    refinement ends with several cells of equal size"""
    g = nx.Graph()
    for v in range(1, 2 * k + 1):
        g.add_node(v, element="C", charge=0, aromatic=False, hcount=0)
    for u, v in half_edges:
        o = E.choice("%so%d_%d" % (pre, u, v), list(orders)) if len(orders) > 1 else orders[0]
        g.add_edge(u, v, order=o)
        g.add_edge(u + k, v + k, order=o)
    g.add_edge(1, k + 1, order=bridge if bridge is not None else (E.choice("%sob" % pre, list(orders)) if len(orders) > 1 else orders[0]))
    return g


def build(E, pre, n, edges, fixed=False, noh=False, pairs=False, mono=False, neg=False):
    if fixed:
        g = nx.Graph()
        for v in range(1, n + 1):
            g.add_node(v, element="C", charge=0, aromatic=False, hcount=0)
        for u, v in edges:
            g.add_edge(u, v, order=1)
        return g
    g, _ = sym_mol(E, pre, n, [tuple(e) for e in edges], elements=("C",) if mono else ("C", "N"), hcounts=(0,) if noh else (0, 1), charges=(-2, -1) if neg else (0,),
                   orders=(1, 2))
    if pairs:
        # rule / ITS-like graph: every bond order is a (before, after) pair
        for u, v in g.edges:
            g[u][v]["order"] = (g[u][v]["order"], E.choice("%sq%d_%d" % (pre, u, v), [1, 2]))
    return g


def h_canon(E, n, edges, backend, copy, relab, fixed=False, noh=False, pairs=False, mono=False, dimer=0, neg=False, bridge=None):
    GC, CG = canon_cls(copy)
    g = build_dimer(E, "g", dimer, edges, (1, 2) if dimer <= 3 else (1,), bridge) if dimer else build(E, "g", n, edges, fixed, noh, pairs, mono, neg)
    canon = GC(backend=backend)
    cg1 = canon.make_canonical_graph(g)
    sig1 = canon.canonical_signature(g)
    info = dict(edges=edges, backend=backend, canon_nodes=sorted(cg1.nodes), canon_edges=sorted(map(sorted, cg1.edges)))
    E.check(faithful_bad(g, cg1), "canonical-graph-is-a-faithful-relabelling-onto-1..N", info)
    cg1b = canon.make_canonical_graph(g)
    E.check(OR(NOT(same_graph(cg1, cg1b)), canon.canonical_signature(g) != sig1), "canonicalisation-is-deterministic", info)
    pi = [int(x) for x in E.perm("pi", n)]
    ids = {v: POOL_IDS[pi[v - 1]] for v in g.nodes}
    if relab == "sym":
        rho = [int(x) for x in E.perm("rho", n)]
        order = [v for _, v in sorted(zip(rho, list(g.nodes)))]
    else:
        order = list(reversed(list(g.nodes)))
    g2 = relabel(g, ids, order=order)
    # edges inserted in reverse order and orientation as well
    g3 = nx.Graph()
    for v in g2.nodes:
        g3.add_node(v, **g2.nodes[v])
    for u, v, d in reversed(list(g2.edges(data=True))):
        g3.add_edge(v, u, **d)
    cg2 = canon.make_canonical_graph(g3)
    sig2 = canon.canonical_signature(g3)
    E.check(faithful_bad(g3, cg2), "canonical-graph-is-a-faithful-relabelling-onto-1..N", dict(info, relabelled=True, ids=ids))
    w1, w2 = CG(g, canon), CG(g3, canon)
    E.check(w1.canonical_hash != CG(g, canon).canonical_hash or (w1 == w2) != (w1.canonical_hash == w2.canonical_hash)
            or (w1 == w2 and hash(w1) != hash(w2)), "wrapper-compares-by-signature", info)
    if backend == "nauty":
        inv = dict(info, ids=ids, order=order, sig=(sig1, sig2), canon2_edges=sorted(map(sorted, cg2.edges)))
        E.check(NOT(same_graph(cg1, cg2)), "exact-backend-canonical-graph-is-invariant", inv)
        E.check(sig1 != sig2, "exact-backend-signature-is-invariant", inv)
        E.check(not (w1 == w2), "exact-backend-wrappers-equal-for-isomorphic-graphs", inv)
        from synkit.Graph.syn_graph import SynGraph

        s1, s2 = SynGraph(g, canon), SynGraph(g3, canon)
        E.check(not (s1 == s2 and hash(s1) == hash(s2)), "exact-backend-syngraph-equal-for-isomorphic-graphs", inv)
    # the same canonicaliser object, the same graph object, edited in place (size unchanged) in between
    if not fixed and not pairs and not dimer and n >= 1:
        c2 = GC(backend=backend)
        c2.canonical_signature(g)
        v0 = list(g.nodes)[0]
        g.nodes[v0]["charge"] = 1
        if g.number_of_edges():
            a, b = list(g.edges)[0]
            g[a][b]["order"] = 3
        sig_e = c2.canonical_signature(g)
        cg_e = c2.make_canonical_graph(g)
        fresh = GC(backend=backend)
        E.check(OR(sig_e != fresh.canonical_signature(g.copy()), faithful_bad(g, cg_e)),
                "signature-is-stale-after-an-in-place-edit", dict(info, edited=v0))
    E.note(nontrivial=any(ids[v] != v for v in ids))
    E.observe((sorted(cg1.nodes), sig1 == sig2))


def h_pair(E, n, ea, eb, backend, copy):
    """equal signatures => isomorphic (every back-end); isomorphic => equal signatures (exact back-end)."""
    GC, CG = canon_cls(copy)
    a = build(E, "a", n, ea, noh=True)
    b0 = build(E, "b", n, eb, noh=True)
    b = relabel(b0, {v: POOL_IDS[v - 1] for v in b0.nodes}, order=list(reversed(list(b0.nodes))))
    canon = GC(backend=backend)
    sa, sb = canon.canonical_signature(a), canon.canonical_signature(b)
    iso = full_iso(a, b)
    info = dict(a=ea, b=eb, backend=backend, equal=sa == sb)
    E.check(AND(sa == sb, NOT(iso)), "equal-signatures-imply-isomorphic", info)
    if backend == "nauty":
        E.check(AND(sa != sb, iso), "exact-backend-isomorphic-implies-equal-signatures", info)
        from synkit.Graph.syn_graph import SynGraph

        eqv = SynGraph(a, canon) == SynGraph(b, canon)
        E.check(OR(AND(eqv, NOT(iso)), AND(not eqv, iso)), "syngraph-equality-iff-isomorphic", info)
    E.note(nontrivial=sa == sb)
    E.observe(sa == sb)


HARNESSES = {"canon": h_canon, "pair": h_pair}
BACKENDS = ["generic", "wl", "morgan", "nauty"]


def shards(tier, seed):
    sh = []
    q = tier == "quick"
    for n in (1, 2, 3):
        for es in all_shapes(n):
            for i, be in enumerate(BACKENDS):
                full = (not q) or be == "nauty" or n < 3
                sh.append(dict(h="canon", params=dict(n=n, edges=es, backend=be, copy="Graph" if (i + len(es)) % 2 else "Canon",
                                                      relab="sym" if full else "rev", noh=not full and len(es) == 3)))
    for es in all_shapes(4):
        if len(es) > 4:
            continue
        for be in (["nauty", "wl"] if q else BACKENDS):
            sh.append(dict(h="canon", params=dict(n=4, edges=es, backend=be, copy="Graph", relab="rev" if q else "sym",
                                                  noh=q or be != "nauty")))
    sym_fams = [(4, [[1, 2], [2, 3], [3, 4], [1, 4]]), (4, [[1, 2], [2, 3], [3, 4], [1, 4], [1, 3]])]
    if not q:
        sym_fams += [(5, [[1, 2], [2, 3], [3, 4], [4, 5], [1, 5]]), (6, [[1, 2], [2, 3], [3, 4], [4, 5], [5, 6], [1, 6]]),
                     (5, [[1, 3], [1, 4], [1, 5], [2, 3], [2, 4], [2, 5]])]
        for es in all_shapes(5, max_edges=5):
            if len(es) >= 4:
                sh.append(dict(h="canon", params=dict(n=5, edges=es, backend="nauty", copy="Canon", relab="rev", fixed=True)))
    # charges -1 / -2: different labels whose hash() values coincide in CPython
    for n_, es_ in ((2, [[1, 2]]), (3, [[1, 2], [2, 3]])) + (() if q else ((3, [[1, 2], [1, 3], [2, 3]]),)):
        for be in (("nauty", "wl") if q else BACKENDS):
            sh.append(dict(h="canon", params=dict(n=n_, edges=es_, backend=be, copy="Canon", relab="sym", noh=True, mono=True, neg=True)))
    # two-fold symmetric dimers of rooted three-atom graphs (6 atoms) under every numbering [thorough: of one rooted
    # four-atom graph, 8 atoms, reversed insertion order]
    for half in ([[1, 2], [1, 3], [2, 3]],) + (() if q else ([[1, 2], [2, 3]], [[1, 2], [1, 3]])):
        sh.append(dict(h="canon", params=dict(n=6, edges=half, backend="nauty", copy="Canon", relab="rev", dimer=3,
                                              **(dict(bridge=1) if q else {}))))
    if not q:
        sh.append(dict(h="canon", params=dict(n=8, edges=[[1, 2], [1, 3], [2, 3], [2, 4]], backend="nauty", copy="Canon", relab="rev", dimer=4)))
    # rule / ITS-like graphs (pair-valued bond orders) on the triangle, the 3-chain and the 4-ring
    for n, es in ((3, [[1, 2], [2, 3]]), (3, [[1, 2], [1, 3], [2, 3]]), (4, [[1, 2], [2, 3], [3, 4], [1, 4]])):
        for be in (("nauty",) if q else ("nauty", "wl")):
            sh.append(dict(h="canon", params=dict(n=n, edges=es, backend=be, copy="Canon", relab="sym" if n == 3 or not q else "rev",
                                                  noh=True, pairs=True, mono=q)))
    for n, es in sym_fams:
        for be in BACKENDS:
            sh.append(dict(h="canon", params=dict(n=n, edges=es, backend=be, copy="Canon", relab="sym" if n <= 4 else "rev",
                                                  fixed=True)))
    for n in ((2, 3) if q else (2, 3, 4)):
        shapes = [es for es in all_shapes(n) if len(es) <= 4]
        for ea, eb in itertools.combinations_with_replacement(shapes, 2):
            if len(ea) != len(eb):
                continue
            for be in BACKENDS:
                if n == 4 and be in ("generic", "morgan"):
                    continue
                sh.append(dict(h="pair", params=dict(n=n, ea=ea, eb=eb, backend=be, copy="Graph")))
    return sh
