"""C19 — complexes, linkage classes, weak reversibility and deficiency follow their definitions.

The network's stoichiometric coefficients are solver variables; DeficiencyAnalyzer (with its real
hypergraph -> bipartite conversion, complex construction, networkx component analysis and numpy rank) runs
on them.  The coefficients are cast by int() inside RXNSide, so each path is one realised network and the
solver enumerates the finite space; the oracle is computed exactly (rational Gaussian elimination, union-find,
reachability) from the same values.
"""
from __future__ import annotations

import warnings
from fractions import Fraction

PROPERTY = "C19"
ALPHABET = []
SPECIES = ["A", "B", "C", "D"]

META = dict(
    bounds=dict(
        quick="2 species x <=2 reactions, coefficients 0..2; 3 species x 2 reactions, coefficients 0..1; "
              "2 species x 3 reactions, coefficients 0..1; product sides written in the opposite species order; every network of unimolecular conversions between 4 species (<=12 reactions); hypergraph input and bipartite-graph input",
        thorough="adds 3 species x 2 reactions with coefficients 0..2 and 3 species x 3 reactions with coefficients 0..1",
    ),
    outside=["more than 3 species / 3 reactions apart from the unimolecular 4-species networks, coefficients > 2", "check_deficiency_one / regularity / "
             "nondegeneracy heuristics (not part of the property)"],
    stubs=[],
    assumptions=["every reaction has at least one non-empty side (the store rejects empty reactions)",
                 "numpy.linalg.matrix_rank runs for real on the realised integer matrix; its result is compared with the "
                 "exact rational rank",
                 "coefficients are realised by int(): solver-driven exhaustion of the finite space"],
    rule="one evaluation = one realised network; non-trivial = at least two distinct complexes and a non-zero rank",
)
WALL = dict(quick=150, thorough=1500)
MIN_PATHS = dict(quick=500, thorough=5000)


def exact_rank(rows):
    m = [[Fraction(x) for x in r] for r in rows]
    rank = 0
    ncol = len(m[0]) if m else 0
    for c in range(ncol):
        piv = None
        for r in range(rank, len(m)):
            if m[r][c] != 0:
                piv = r
                break
        if piv is None:
            continue
        m[rank], m[piv] = m[piv], m[rank]
        for r in range(len(m)):
            if r != rank and m[r][c] != 0:
                f = m[r][c] / m[rank][c]
                m[r] = [a - f * b for a, b in zip(m[r], m[rank])]
        rank += 1
    return rank


def oracle(species, rxns):
    """species: list of labels present; rxns: list of (reactant dict, product dict)."""
    sp = sorted(species)
    vec = lambda d: tuple(d.get(s, 0) for s in sp)
    arcs = [(vec(r), vec(p)) for r, p in rxns]
    complexes = sorted({c for a in arcs for c in a})
    parent = {c: c for c in complexes}

    def find(x):
        while parent[x] != x:
            parent[x] = parent[parent[x]]
            x = parent[x]
        return x

    for a, b in arcs:
        parent[find(a)] = find(b)
    classes = {}
    for c in complexes:
        classes.setdefault(find(c), []).append(c)
    succ = {c: set() for c in complexes}
    for a, b in arcs:
        succ[a].add(b)

    def reach(x):
        seen, st = {x}, [x]
        while st:
            y = st.pop()
            for z in succ[y]:
                if z not in seen:
                    seen.add(z)
                    st.append(z)
        return seen

    wr = all(all(set(cl) <= reach(c) for c in cl) for cl in classes.values())
    S = [[p.get(s, 0) - r.get(s, 0) for r, p in rxns] for s in sp]
    rank = exact_rank(S)
    lds = []
    for cl in classes.values():
        cls = set(cl)
        diffs = [[b[i] - a[i] for i in range(len(sp))] for a, b in arcs if a in cls]
        lds.append(len(cl) - 1 - (exact_rank(diffs) if diffs else 0))
    return dict(complexes=complexes, n_link=len(classes), weakly_reversible=wr, rank=rank,
                deficiency=len(complexes) - len(classes) - rank, linkage_deficiencies=sorted(lds), species=sp)


def h_deficiency(E, ns, nr, cmax, via):
    warnings.simplefilter("ignore")
    from synkit.CRN.Hypergraph.hypergraph import CRNHyperGraph
    from synkit.CRN.Hypergraph.conversion import hypergraph_to_bipartite
    from synkit.CRN.Props.deficiency import DeficiencyAnalyzer

    sp = SPECIES[:ns]
    coef = {}
    for j in range(nr):
        for side in "rp":
            for s in sp:
                coef[j, side, s] = E.int("%s%d%s" % (side, j, s), 0, cmax)
    hg = CRNHyperGraph()
    rxns = []
    for j in range(nr):
        r = {s: int(coef[j, "r", s]) for s in sp}
        p = {s: int(coef[j, "p", s]) for s in reversed(sp)}  # the product side is written in the opposite species order
        r = {k: v for k, v in r.items() if v > 0}
        p = {k: v for k, v in p.items() if v > 0}
        E.assume(bool(r) or bool(p))
        hg.add_rxn(dict(r), dict(p), rule="r")
        rxns.append((r, p))
    crn = hg if via == "hypergraph" else hypergraph_to_bipartite(hg)
    an = DeficiencyAnalyzer(crn).compute_crn_deficiency()
    sm = an.summary
    d = an.as_dict()
    o = oracle(hg.species, rxns)
    got_complexes = sorted(tuple(int(x) for x in c) for c in an._complexes) if an._complexes is not None else None
    info = dict(rxns=rxns, expected={k: o[k] for k in ("complexes", "n_link", "weakly_reversible", "rank", "deficiency",
                                                       "linkage_deficiencies")},
                got=dict(n_complexes=sm.n_complexes, n_link=sm.n_linkage_classes, wr=sm.weakly_reversible,
                         rank=sm.stoich_rank, deficiency=sm.deficiency, linkage=an.linkage_deficiencies,
                         complexes=got_complexes))
    E.check(sm.n_species != len(o["species"]) or sm.n_reactions != nr, "counts", info)
    E.check(sm.n_complexes != len(o["complexes"]) or got_complexes != o["complexes"], "complexes", info)
    E.check(sm.n_linkage_classes != o["n_link"], "linkage-classes", info)
    E.check(bool(sm.weakly_reversible) != o["weakly_reversible"], "weak-reversibility", info)
    E.check(sm.stoich_rank != o["rank"], "rank", info)
    E.check(sm.deficiency != o["deficiency"] or sm.deficiency < 0, "deficiency", info)
    ld = an.linkage_deficiencies
    E.check(ld is None or sum(ld) > sm.deficiency or sorted(ld) != o["linkage_deficiencies"], "linkage-deficiencies", info)
    dd = d.get("summary", d)
    E.check(not isinstance(d, dict), "as-dict", info)
    E.note(nontrivial=len(o["complexes"]) >= 2 and o["rank"] >= 1)
    E.observe((sm.n_complexes, sm.n_linkage_classes, sm.deficiency, bool(sm.weakly_reversible)))


def h_unimol(E, ns, via):
    """all networks of unimolecular conversions i -> j between ns species (one solver-chosen bit per ordered pair): every
    complex is a single species, so the complex graph is the conversion graph itself - linkage classes, weak reversibility
    and deficiency on up to ns(ns-1) reactions."""
    warnings.simplefilter("ignore")
    from synkit.CRN.Hypergraph.hypergraph import CRNHyperGraph
    from synkit.CRN.Hypergraph.conversion import hypergraph_to_bipartite
    from synkit.CRN.Props.deficiency import DeficiencyAnalyzer

    sp = SPECIES[:ns]
    hg = CRNHyperGraph()
    rxns = []
    for i in range(ns):
        for j in range(ns):
            if i != j and bool(E.bool("a%d_%d" % (i, j))):
                hg.add_rxn({sp[i]: 1}, {sp[j]: 1}, rule="r")
                rxns.append(({sp[i]: 1}, {sp[j]: 1}))
    E.assume(len(rxns) >= 1)
    crn = hg if via == "hypergraph" else hypergraph_to_bipartite(hg)
    an = DeficiencyAnalyzer(crn).compute_crn_deficiency()
    sm = an.summary
    o = oracle(hg.species, rxns)
    info = dict(rxns=rxns, expected={k: o[k] for k in ("n_link", "weakly_reversible", "rank", "deficiency")},
                got=dict(n_complexes=sm.n_complexes, n_link=sm.n_linkage_classes, wr=sm.weakly_reversible, rank=sm.stoich_rank,
                         deficiency=sm.deficiency))
    E.check(sm.n_complexes != len(o["complexes"]), "complexes", info)
    E.check(sm.n_linkage_classes != o["n_link"], "linkage-classes", info)
    E.check(bool(sm.weakly_reversible) != o["weakly_reversible"], "weak-reversibility", info)
    E.check(sm.stoich_rank != o["rank"], "rank", info)
    E.check(sm.deficiency != o["deficiency"] or sm.deficiency < 0, "deficiency", info)
    E.note(nontrivial=len(rxns) >= 2)
    E.observe((sm.n_complexes, sm.n_linkage_classes, sm.deficiency, bool(sm.weakly_reversible)))


HARNESSES = {"deficiency": h_deficiency, "unimol": h_unimol}


def shards(tier, seed):
    sh = [
        dict(h="deficiency", params=dict(ns=2, nr=1, cmax=2, via="hypergraph")),
        dict(h="deficiency", params=dict(ns=2, nr=2, cmax=2, via="hypergraph")),
        dict(h="deficiency", params=dict(ns=3, nr=2, cmax=1, via="hypergraph")),
        dict(h="deficiency", params=dict(ns=2, nr=3, cmax=1, via="bipartite")),
        dict(h="unimol", params=dict(ns=4, via="hypergraph")),
    ]
    if tier == "thorough":
        sh += [
            dict(h="deficiency", params=dict(ns=3, nr=2, cmax=2, via="bipartite")),
            dict(h="deficiency", params=dict(ns=3, nr=3, cmax=1, via="hypergraph")),
        ]
    return sh
