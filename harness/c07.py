"""C07 — isomorphism verdicts and embeddings are correct; pre-filters and query history never change them."""
from __future__ import annotations

import itertools

import networkx as nx

from symx import AND, OR, NOT, EQ, GE, IFF
from vf.graphs import all_shapes, sym_mol, iso_formula, relabel

PROPERTY = "C07"
ALPHABET = ["C", "N", "O", "*"]
NA, EA = ["element", "charge"], ["order"]

META = dict(
    bounds=dict(
        quick="all pairs of graphs (connected or not) on <=3 nodes, plus equal-size 4-node pairs with <=3 bonds; element "
              "in {C,N}, charge in {0,1}, hcount in {0,1}, order in {1,2}; second graph under the same ids and under "
              "shifted ids with reversed insertion order; WL filter on/off; engines with node_attrs [element,charge] and "
              "[element] querying the same objects in both orders; induced and monomorphism mode, use_filter on/off; streams of short-lived graph pairs under eager address recycling; WL filter on/off and engine histories also for five-atom hosts (5-ring, branched tree [thorough: 5-chain]) against 3- and 4-atom chain [thorough: star] patterns, and for the two pairs of connected five-atom graphs with equal degree sequences, elements only; graph_morphism.find_graph_isomorphism on all 3-atom pairs and on 4/5-atom graphs against themselves plus one bond under the same numbering, invariant pre-check on/off, both argument orders; additionally a few two-/three-atom shards with charges in {-2,-1}: different labels whose hash() values coincide in CPython.",
        thorough="all pairs on <=4 nodes (<=4 bonds)",
    ),
    outside=["graphs > 4 nodes apart from the listed five-atom hosts", "the optional 'mod' rule backend (not installed)", "MultiGraph/DiGraph inputs"],
    stubs=["stream harness: module attribute `id` of graph_matcher replaced by vf/idstub.py (eager, contract-conforming address recycling)"],
    assumptions=["hcount rule: the verdict must equal the bijection formula with host>=pattern hydrogen counts in one of "
                 "the two argument orders (the API does not say which argument is the host); symmetry is demanded only "
                 "when all hydrogen counts are equal",
                 "get_mappings must be non-empty whenever the pattern is contained as an induced subgraph; every "
                 "returned dict must be a valid monomorphic embedding (the weaker reading on both sides)",
                 "the WL pre-filter hashes labels: element/charge are realised on those paths (solver-driven enumeration)"],
    rule="one evaluation = one symbolic path through VF2 for a shape pair; non-trivial = some verdict on the path is True",
)
WALL = dict(quick=170, thorough=1500)
MIN_PATHS = dict(quick=300, thorough=3000)


def _eng(**kw):
    from synkit.Graph.Matcher.graph_matcher import GraphMatcherEngine

    GraphMatcherEngine._wl_cache.clear()
    return GraphMatcherEngine


def node_eq_ge(X, Y, hrule):
    def f(u, v):
        c = [EQ(X.nodes[u].get(k), Y.nodes[v].get(k)) for k in NA]
        if hrule == "ge":
            c.append(GE(X.nodes[u].get("hcount", 0), Y.nodes[v].get("hcount", 0)))
        elif hrule == "le":
            c.append(GE(Y.nodes[v].get("hcount", 0), X.nodes[u].get("hcount", 0)))
        return AND(c)

    return f


def edge_eq(X, Y):
    return lambda e, f: EQ(X[e[0]][e[1]].get("order"), Y[f[0]][f[1]].get("order"))


DOMS = dict(full=((0, 1), (0, 1)), nocharge=((0, 1), (0,)), noh=((0,), (0, 1)), bare=((0,), (0,)), neg=((0,), (-2, -1)))


def build_pair(E, an, aedges, bn, bedges, shift, dom="full"):
    hcounts, charges = DOMS[dom]
    A, _ = sym_mol(E, "A", an, [tuple(e) for e in aedges], elements=("C", "N"), hcounts=hcounts, charges=charges, orders=(1, 2))
    ids = [21 + i for i in range(bn)] if shift else None
    B, _ = sym_mol(E, "B", bn, [tuple(e) for e in bedges], elements=("C", "N"), hcounts=hcounts, charges=charges, orders=(1, 2),
                   node_ids=ids)
    return A, B


def h_iso(E, an, aedges, bn, bedges, shift, dom="full"):
    GME = _eng()
    A, B = build_pair(E, an, aedges, bn, bedges, shift, dom)
    eng = GME(node_attrs=NA, edge_attrs=EA, wl1_filter=False, max_mappings=None)
    v = bool(eng.isomorphic(A, B))
    v_rev = bool(eng.isomorphic(B, A))
    f_ab = iso_formula(A, B, node_eq_ge(A, B, "ge"), edge_eq(A, B))
    f_ba = iso_formula(A, B, node_eq_ge(A, B, "le"), edge_eq(A, B))
    info = dict(a=aedges, b=bedges, verdict=v, reverse=v_rev)
    E.check(NOT(OR(IFF(v, f_ab), IFF(v, f_ba))), "isomorphic-iff-label-preserving-bijection", info)
    hs = [A.nodes[x]["hcount"] for x in A.nodes] + [B.nodes[x]["hcount"] for x in B.nodes]
    heq = AND([EQ(hs[0], h) for h in hs[1:]])
    E.check(AND(heq, v != v_rev), "symmetric-when-hydrogen-counts-are-equal", info)
    # relabelling either graph (new ids, reversed insertion order) must not change the verdict
    A2 = relabel(A, {x: x + 40 for x in A.nodes}, order=list(reversed(list(A.nodes))))
    B2 = relabel(B, {x: x + 60 for x in B.nodes}, order=list(reversed(list(B.nodes))))
    E.check(bool(eng.isomorphic(A, B2)) != v or bool(eng.isomorphic(A2, B)) != v, "verdict-invariant-under-relabelling", info)
    E.note(nontrivial=v or v_rev)
    E.observe((v, v_rev))


def h_filters(E, an, aedges, bn, bedges, shift, dom="noh"):
    """WL pre-filter on/off, and engines with different attribute selections sharing graph objects."""
    GME = _eng()
    A, B = build_pair(E, an, aedges, bn, bedges, shift, dom)
    plain = GME(node_attrs=NA, edge_attrs=EA, wl1_filter=False, max_mappings=None)
    info = dict(a=aedges, b=bedges)
    v = bool(plain.isomorphic(A, B))
    m = plain.get_mappings(A, B)
    wl = GME(node_attrs=NA, edge_attrs=EA, wl1_filter=True, max_mappings=None)
    E.check(bool(wl.isomorphic(A, B)) != v, "wl-filter-changes-isomorphic-verdict", dict(info, plain=v))
    mw = wl.get_mappings(A, B)
    key = lambda ms: sorted(tuple(sorted(d.items())) for d in ms)
    E.check(key(mw) != key(m), "wl-filter-changes-mappings", dict(info, plain=key(m), filtered=key(mw)))
    # history: an engine that ignores charge, asked after / before an engine that uses charge, on the same objects
    el_plain = GME(node_attrs=["element"], edge_attrs=EA, wl1_filter=False, max_mappings=None)
    v_el = bool(el_plain.isomorphic(A, B))
    GME._wl_cache.clear()
    e_full = GME(node_attrs=NA, edge_attrs=EA, wl1_filter=True, max_mappings=None)
    e_el = GME(node_attrs=["element"], edge_attrs=EA, wl1_filter=True, max_mappings=None)
    e_full.isomorphic(A, B)
    after = bool(e_el.isomorphic(A, B))
    E.check(after != v_el, "verdict-depends-on-earlier-query-with-other-attributes", dict(info, fresh=v_el, after=after))
    GME._wl_cache.clear()
    e_el.isomorphic(A, B)
    after2 = bool(e_full.isomorphic(A, B))
    E.check(after2 != v, "verdict-depends-on-earlier-query-with-other-attributes", dict(info, fresh=v, after=after2))
    # partially cached history: the first engine has seen only one of the two objects (queried against itself); the second
    # engine lists the same / fewer node attributes, possibly in another order
    e_rev = GME(node_attrs=list(reversed(NA)), edge_attrs=EA, wl1_filter=True, max_mappings=None)
    for first_eng, second, want, tag, cached in ((e_full, e_rev, v, "same attributes in another order", A),
                                                 (e_rev, e_full, v, "same attributes in another order (reverse first)", B),
                                                 (e_full, e_el, v_el, "charge-aware first, one object cached", A),
                                                 (e_el, e_full, v, "element-only first, one object cached", B)):
        if True:
            GME._wl_cache.clear()
            first_eng.isomorphic(cached, cached)
            got = bool(second.isomorphic(A, B))
            E.check(got != want, "verdict-depends-on-earlier-query-with-other-attributes",
                    dict(info, engines=tag, cached="A" if cached is A else "B", fresh=want, after=got))
    # the same with engines that differ in their *edge* attribute selection
    ne_plain = GME(node_attrs=["element"], edge_attrs=[], wl1_filter=False, max_mappings=None)
    v_ne = bool(ne_plain.isomorphic(A, B))
    m_ne = key(ne_plain.get_mappings(A, B))
    for first in ("edge", "noedge"):
        GME._wl_cache.clear()
        e_edge = GME(node_attrs=["element"], edge_attrs=EA, wl1_filter=True, max_mappings=None)
        e_noedge = GME(node_attrs=["element"], edge_attrs=[], wl1_filter=True, max_mappings=None)
        if first == "edge":
            e_edge.isomorphic(A, B)
            got, gm_ = bool(e_noedge.isomorphic(A, B)), key(e_noedge.get_mappings(A, B))
            E.check(got != v_ne or gm_ != m_ne, "verdict-depends-on-earlier-query-with-other-attributes",
                    dict(info, engines="edge-attrs first", fresh=v_ne, after=got))
        else:
            e_noedge.isomorphic(A, B)
            got = bool(e_edge.isomorphic(A, B))
            E.check(got != v_el, "verdict-depends-on-earlier-query-with-other-attributes",
                    dict(info, engines="no-edge-attrs first", fresh=v_el, after=got))
    GME._wl_cache.clear()
    E.note(nontrivial=v or v_el or len(m) > 0)
    E.observe((v, v_el, key(m)))


def mono_valid(host, pat, f, hrule=True):
    conj = []
    for p, h in f.items():
        for k in NA:
            conj.append(EQ(host.nodes[h].get(k), pat.nodes[p].get(k)))
        if hrule:
            conj.append(GE(host.nodes[h].get("hcount", 0), pat.nodes[p].get("hcount", 0)))
    for u, v in pat.edges:
        if not host.has_edge(f[u], f[v]):
            return False
        conj.append(EQ(host[f[u]][f[v]].get("order"), pat[u][v].get("order")))
    return AND(conj)


def h_mappings(E, hn, hedges, pn, pedges, dom="full"):
    GME = _eng()
    host, pat = build_pair(E, hn, hedges, pn, pedges, True, dom)
    info = dict(host=hedges, pattern=pedges)
    contained = iso_formula(pat, host, lambda u, v: AND([EQ(pat.nodes[u].get(k), host.nodes[v].get(k)) for k in NA] +
                                                         [GE(host.nodes[v].get("hcount", 0), pat.nodes[u].get("hcount", 0))]),
                            lambda e, f: EQ(pat[e[0]][e[1]].get("order"), host[f[0]][f[1]].get("order")),
                            induced=True, bijective=False)
    for mm in (None, 1):
        eng = GME(node_attrs=NA, edge_attrs=EA, wl1_filter=False, max_mappings=mm)
        ms = eng.get_mappings(host, pat)
        bad = []
        for d in ms:
            ok_shape = isinstance(d, dict) and set(d.keys()) == set(pat.nodes) and len(set(d.values())) == len(d) \
                and set(d.values()) <= set(host.nodes)
            bad.append(NOT(mono_valid(host, pat, d)) if ok_shape else True)
        got = [sorted(d.items()) for d in ms]
        E.check(OR(bad), "returned-embeddings-are-valid-pattern-to-host-maps", dict(info, max_mappings=mm, got=got))
        E.check(AND(contained, len(ms) == 0), "contained-pattern-gets-at-least-one-embedding", dict(info, max_mappings=mm))
        if mm is not None:
            E.check(len(ms) > mm, "max-mappings-respected", dict(info, got=got))
    E.note(nontrivial=len(ms) > 0)
    E.observe(len(ms))


def h_submatch(E, cn, cedges, pn, pedges, shift):
    """boolean sub-graph tests: definitions, and the cheap pre-filter never changes a verdict."""
    from synkit.Graph.Matcher.subgraph_matcher import SubgraphMatch
    from synkit.Graph.Matcher import graph_morphism as gmm

    child, parent = build_pair(E, cn, cedges, pn, pedges, shift, "noh")
    child, parent = parent, child  # build_pair names: first = A (ids 1..), second = B (shifted); child is B
    child, parent = child, parent
    info = dict(child=pedges, parent=cedges, shift=shift)
    neq = lambda u, v: AND([EQ(child.nodes[u].get(k), parent.nodes[v].get(k)) for k in NA])
    eeq = lambda e, f: EQ(child[e[0]][e[1]].get("order"), parent[f[0]][f[1]].get("order"))
    res = {}
    for mode in ("induced", "monomorphism"):
        want = iso_formula(child, parent, neq, eeq, induced=(mode == "induced"), bijective=False)
        for name, fn in (("SubgraphMatch", SubgraphMatch.subgraph_isomorphism), ("graph_morphism", gmm.subgraph_isomorphism)):
            plain = bool(fn(child, parent, use_filter=False, check_type=mode))
            filt = bool(fn(child, parent, use_filter=True, check_type=mode))
            res[name, mode] = (plain, filt)
            E.check(NOT(IFF(plain, want)), "subgraph-test-matches-definition", dict(info, api=name, mode=mode, verdict=plain))
            E.check(plain != filt, "pre-filter-changes-subgraph-verdict", dict(info, api=name, mode=mode, plain=plain, filtered=filt))
        isub = bool(SubgraphMatch.is_subgraph(child, parent, check_type=mode))
        E.check(NOT(IFF(isub, want)), "is-subgraph-matches-definition", dict(info, mode=mode, verdict=isub))
    if child.number_of_nodes() == parent.number_of_nodes():
        want_iso = iso_formula(child, parent, neq, eeq)
        gi = bool(gmm.graph_isomorphism(child, parent, use_defaults=True))
        E.check(NOT(IFF(gi, want_iso)), "graph-isomorphism-matches-definition", dict(info, verdict=gi))
    E.note(nontrivial=any(a for a, _ in res.values()))
    E.observe(sorted((k[0], k[1], v[0]) for k, v in res.items()))


def h_stream(E, n, edges):
    """short-lived graphs: a pair is compared and dropped, then another pair of the same size is compared.  id() inside the
    matcher module recycles addresses as eagerly as CPython allows, so anything remembered under an address must not
    leak into the next answer."""
    import gc
    import importlib

    from vf.idstub import recycled_ids

    gmod = importlib.import_module("synkit.Graph.Matcher.graph_matcher")
    GME = _eng()
    edges = [tuple(e) for e in edges]
    with recycled_ids(gmod):
        eng = GME(node_attrs=NA, edge_attrs=EA, wl1_filter=True, max_mappings=None)
        A, B = build_pair(E, n, edges, n, edges, True, "bare")
        eng.isomorphic(A, B)
        eng.get_mappings(A, B)
        del A, B
        gc.collect()
        C, _ = sym_mol(E, "C", n, edges, elements=("C", "N"), hcounts=(0,), charges=(0,), orders=(1, 2))
        D = relabel(C, {x: x + 70 for x in C.nodes}, order=list(reversed(list(C.nodes))))
        v = bool(eng.isomorphic(C, D))
        m = eng.get_mappings(C, D)
        info = dict(edges=edges)
        E.check(not v, "graph-not-isomorphic-to-its-relabelled-copy-after-earlier-queries", info)
        E.check(len(m) == 0, "no-embedding-of-a-graph-into-its-relabelled-copy-after-earlier-queries", info)
        plain = GME(node_attrs=NA, edge_attrs=EA, wl1_filter=False, max_mappings=None)
        key = lambda ms: sorted(tuple(sorted(d.items())) for d in ms)
        E.check(key(plain.get_mappings(C, D)) != key(m), "wl-filter-changes-mappings", info)
    GME._wl_cache.clear()
    E.note(nontrivial=True)
    E.observe(len(m))


def h_morphism(E, an, aedges, bn, bedges, shift):
    """graph_morphism.find_graph_isomorphism / graph_isomorphism: a mapping is returned iff a label- and adjacency-preserving
    bijection exists, the mapping is one, and the cheap invariant pre-check never changes the answer.  Same node ids in
    both graphs (shift=False) or disjoint ids."""
    from synkit.Graph.Matcher import graph_morphism as gmm

    A, B = build_pair(E, an, aedges, bn, bedges, shift, "nocharge")
    nm = lambda a, b: a["element"] == b["element"] and a["hcount"] == b["hcount"]
    em = lambda a, b: a["order"] == b["order"]
    want = iso_formula(A, B, lambda u, v: AND(EQ(A.nodes[u]["element"], B.nodes[v]["element"]), EQ(A.nodes[u]["hcount"], B.nodes[v]["hcount"])),
                       lambda e, f: EQ(A[e[0]][e[1]]["order"], B[f[0]][f[1]]["order"]))
    info = dict(a=aedges, b=bedges, shift=shift)
    got = {}
    for fast in (True, False):
        for X, Y, tag in ((A, B, "ab"), (B, A, "ba")):
            m = gmm.find_graph_isomorphism(X, Y, node_match=nm, edge_match=em, use_defaults=False, fast_invariant_check=fast)
            got[fast, tag] = m is not None
            E.check(NOT(IFF(m is not None, want)), "mapping-returned-iff-isomorphic", dict(info, fast_invariant_check=fast, order=tag, mapping=m))
            if m is not None:
                ok = isinstance(m, dict) and set(m) == set(X.nodes) and set(m.values()) == set(Y.nodes)
                bad = True
                if ok:
                    conj = [AND(EQ(X.nodes[u]["element"], Y.nodes[m[u]]["element"]), EQ(X.nodes[u]["hcount"], Y.nodes[m[u]]["hcount"])) for u in X.nodes]
                    struct = X.number_of_edges() == Y.number_of_edges() and all(Y.has_edge(m[u], m[v]) for u, v in X.edges)
                    if struct:
                        conj += [EQ(X[u][v]["order"], Y[m[u]][m[v]]["order"]) for u, v in X.edges]
                        bad = NOT(AND(conj))
                E.check(bad, "returned-mapping-is-an-isomorphism", dict(info, fast_invariant_check=fast, order=tag, mapping=m))
    E.check(got[True, "ab"] != got[False, "ab"] or got[True, "ba"] != got[False, "ba"], "invariant-pre-check-changes-the-answer", info)
    E.note(nontrivial=any(got.values()))
    E.observe(sorted(got.items()))


HARNESSES = {"morphism": h_morphism, "iso": h_iso, "filters": h_filters, "mappings": h_mappings, "submatch": h_submatch, "stream": h_stream}


def shards(tier, seed):
    sh = []
    q = tier == "quick"
    small = [(n, es) for n in (1, 2, 3) for es in all_shapes(n)]
    four = [(4, es) for es in all_shapes(4) if len(es) <= (3 if q else 4)]
    for (an, ae), (bn, be) in itertools.product(small + four, small + four):
        if an == bn and len(ae) == len(be):
            if an == 4 and ae > be:
                continue
            dom = "full" if an <= 2 or (not q and an == 3) else ("nocharge" if an == 3 else ("bare" if q else "nocharge"))
            sh.append(dict(h="iso", params=dict(an=an, aedges=ae, bn=bn, bedges=be, shift=(an + len(ae)) % 2 == 0, dom=dom)))
        elif an != bn and max(an, bn) <= 3:
            sh.append(dict(h="iso", params=dict(an=an, aedges=ae, bn=bn, bedges=be, shift=True, dom="nocharge")))
    fpool = [(n, es) for n in (2, 3) for es in all_shapes(n)]
    for (an, ae), (bn, be) in itertools.product(fpool, fpool):
        if an >= bn and len(ae) >= len(be):
            dom = "noh" if (an + bn <= 5 or not q) else "bare"
            sh.append(dict(h="filters", params=dict(an=an, aedges=ae, bn=bn, bedges=be, shift=True, dom=dom)))
    # five-atom hosts (ring, branched tree, chain) against strictly smaller chain / star patterns: the regime in which a
    # necessary-condition pre-filter for proper sub-graphs has room to go wrong
    ring5 = [[1, 2], [2, 3], [3, 4], [4, 5], [1, 5]]
    tee5 = [[1, 2], [2, 3], [3, 4], [3, 5]]
    chain5 = [[1, 2], [2, 3], [3, 4], [4, 5]]
    for he in (ring5, tee5) + (() if q else (chain5,)):
        for pn, pe in ((4, [[1, 2], [2, 3], [3, 4]]), (3, [[1, 2], [2, 3]])) + (() if q else ((4, [[1, 2], [1, 3], [1, 4]]),)):
            sh.append(dict(h="filters", params=dict(an=5, aedges=he, bn=pn, bedges=pe, shift=True, dom="bare")))
    # the connected five-atom graphs that share their degree sequence with a non-isomorphic one (two classes of two):
    # the smallest non-isomorphic pairs that a label- and degree-based shortcut cannot tell apart
    import networkx as nx
    by_deg = {}
    for es in all_shapes(5, connected=True):
        g5 = nx.Graph([tuple(e) for e in es])
        by_deg.setdefault(tuple(sorted(d for _, d in g5.degree())), []).append([list(e) for e in es])
    for cls in by_deg.values():
        if len(cls) == 2:
            sh.append(dict(h="filters", params=dict(an=5, aedges=cls[0], bn=5, bedges=cls[1], shift=True, dom="bare")))
            if not q:
                sh.append(dict(h="filters", params=dict(an=5, aedges=cls[1], bn=5, bedges=cls[0], shift=False, dom="bare")))
    # charges -1 / -2: different labels whose hash() values coincide in CPython (the WL filter hashes labels)
    for n_, es_ in ((2, [[1, 2]]), (3, [[1, 2], [2, 3]])):
        sh.append(dict(h="iso", params=dict(an=n_, aedges=es_, bn=n_, bedges=es_, shift=True, dom="neg")))
        sh.append(dict(h="filters", params=dict(an=n_, aedges=es_, bn=n_, bedges=es_, shift=True, dom="neg")))
    # graph_morphism: equal-size pairs; the second graph = the first plus one more bond under the same numbering
    three = [(3, es) for es in all_shapes(3)]
    for (an, ae), (bn, be) in itertools.product(three, three):
        sh.append(dict(h="morphism", params=dict(an=an, aedges=ae, bn=bn, bedges=be, shift=len(ae) % 2 == 0)))
    for n5, base in ((4, [[1, 2], [2, 3], [3, 4]]), (4, [[1, 2], [1, 3], [1, 4]]), (5, chain5)) + (() if q else ((4, [[1, 2], [3, 4]]), (5, tee5))):
        nodes5 = list(range(1, n5 + 1))
        for u, v in itertools.combinations(nodes5, 2):
            if [u, v] not in base and (not q or (u, v) in ((1, n5), (1, 3), (2, 4))):
                sh.append(dict(h="morphism", params=dict(an=n5, aedges=base, bn=n5, bedges=sorted(base + [[u, v]]), shift=False)))
    for (hn, he), (pn, pe) in itertools.product(small + four, small):
        if pn <= hn and len(pe) <= len(he) and hn >= 2:
            if q and hn == 4 and pn == 3 and len(pe) >= 2:
                continue
            dom = "full" if hn <= 3 and pn <= 2 else "nocharge"
            sh.append(dict(h="mappings", params=dict(hn=hn, hedges=he, pn=pn, pedges=pe, dom=dom)))
    for n_, es_ in ((2, [[1, 2]]), (3, [[1, 2], [2, 3]]), (3, [[1, 2], [1, 3], [2, 3]]), (4, [[1, 2], [2, 3], [3, 4]])):
        sh.append(dict(h="stream", params=dict(n=n_, edges=es_)))
    for (pn_, pe), (cn, ce) in itertools.product(small + ([] if q else four), small):
        if cn <= pn_ and pn_ >= 2:
            sh.append(dict(h="submatch", params=dict(cn=pn_, cedges=pe, pn=cn, pedges=ce, shift=(len(pe) + len(ce)) % 2 == 0)))
    return sh
