"""C05 — rule application depends on the chemistry only, not on how the inputs are written; plus the C11 clause that
symmetry pruning never changes the set of distinct reactions compared with applying the rule at every match."""
from __future__ import annotations

import networkx as nx

from symx import AND, OR, NOT, EQ
from vf.graphs import all_shapes, relabel
from harness.reactor_common import (ALPHABET, sym_reaction, sym_substrate, balance_assumption, its_iso, its_equal_sets,  # noqa
                                    its_subset, reactor, check_sets_equal, check_subset, family_reaction, plain_substrate)

PROPERTY = "C05"

META = dict(
    bounds=dict(
        quick="templates: centres of reactions on k=2 atoms (element {C,O}, hcount per side 0..1, charges 0..1 on 2-atom substrates, orders per side "
              "0..2) and on k=3 atoms (carbon only, no hydrogens, charge 0, orders per side 0..1, substrate rewritten by one fixed rotation) ; substrates: all shapes on <=3 atoms with symbolic labels; every renumbering of the "
              "template (solver-chosen permutation), a solver-chosen renumbering and reversed insertion order of the "
              "substrate, the same call repeated, strategies all/comp/bt on the same pair, and pruned results against "
              "gluing every raw match; concrete families with a symmetric centre and symbolic substituents ([2+2], allylic shift; thorough: Diels-Alder)",
        thorough="k=3 templates with charges, substrates with 4 atoms (<=3 bonds)",
    ),
    outside=["SMILES rewriting proper (RDKit atom ordering, ring-closure digits): represented by node renumbering and "
             "insertion order only", "explicit-hydrogen templates, wildcards, partial=True"],
    stubs=["NoCanon canonicaliser passed through the public canonicaliser= parameter (identity, one fresh signature per object); the history harness uses the real GraphCanonicaliser"],
    assumptions=["results are compared as sets up to isomorphism of the glued ITS (typesGH and order pairs)",
                 "the component-aware strategy is compared with strict_cc_count as the reactor passes it (default True)"],
    rule="one evaluation = one symbolic path covering the original and the renumbered application; non-trivial = at least "
         "two results or a non-identity renumbering with at least one result",
)
WALL = dict(quick=170, thorough=1500)
MIN_PATHS = dict(quick=200, thorough=2000)


def glue_all_raw(R):
    """apply the rule at every raw match (no symmetry pruning), through the reactor's own gluing routine."""
    from synkit.Graph.Matcher.subgraph_matcher import SubgraphSearchEngine
    from synkit.Synthesis.Reactor.strategy import Strategy
    from synkit.Synthesis.Reactor.syn_reactor import SynReactor

    pat = R.rule.left.raw
    raw = SubgraphSearchEngine.find_subgraph_mappings(host=R.graph.raw, pattern=pat, node_attrs=["element", "charge"],
                                                      edge_attrs=["order"], strategy=Strategy.from_string(R.strategy))
    out = []
    for m in raw:
        out.extend(SynReactor._glue_graph(R.graph.raw, R.rule.rc.raw, m, False, pat, Strategy.from_string(R.strategy)))
    return out


def h_numbering(E, k, hn, hedges, invert, cs=(0,), hmax_t=1, hmax_s=1, omax_t=2, els=("C", "O"), tau_sym=True):
    from synkit.Graph.ITS.its_construction import ITSConstruction
    from synkit.Graph.ITS.its_decompose import get_rc

    Gt, Ht, ts = sym_reaction(E, "t", k, hs=tuple(range(hmax_t + 1)), cs=cs, orders=tuple(range(omax_t + 1)),
                              ids=[11 + i for i in range(k)], els=tuple(els))
    rc = get_rc(ITSConstruction.ITSGraph(Gt, Ht))
    if rc.number_of_nodes() == 0:
        E.note(nontrivial=False)
        return
    E.assume(balance_assumption(ts, list(rc.nodes)))
    host = sym_substrate(E, "s", hn, hedges, hs=tuple(range(hmax_s + 1)), cs=cs, els=tuple(els))
    info = dict(template_nodes=sorted(rc.nodes), template_edges=sorted(map(sorted, rc.edges)), host=hedges, invert=invert)
    res = {s: reactor(host, rc, s, invert).its_list for s in ("all", "comp", "bt")}
    # repeated call, fresh objects
    again = reactor(host.copy(), rc.copy(), "all", invert).its_list
    check_sets_equal(E, again, res["all"], "repeated-call-changes-the-result", info)
    # strategies
    check_subset(E, res["comp"], res["all"], "component-aware-result-is-not-a-subset-of-exhaustive", info)
    want_bt = res["comp"] if res["comp"] else res["all"]
    check_sets_equal(E, res["bt"], want_bt, "fallback-is-not-comp-if-non-empty-else-all",
                     dict(info, n_comp=len(res["comp"]), n_bt=len(res["bt"]), n_all=len(res["all"])))
    # pruning loses nothing (C11 clause)
    for s in ("all", "comp"):
        R = reactor(host, rc, s, invert)
        pruned = R.its_list
        unpruned = glue_all_raw(R)
        check_sets_equal(E, pruned, unpruned, "symmetry-pruning-changes-the-set-of-distinct-reactions",
                         dict(info, strategy=s, n_pruned=len(pruned), n_raw=len(unpruned)))
    # template renumbered
    tn = list(rc.nodes)
    sigma = [int(x) for x in E.perm("sigma", len(tn))]
    base = sorted(tn)
    mp = {v: base[sigma[i]] for i, v in enumerate(tn)}  # the same set of map numbers, permuted
    rc2 = relabel(rc, mp, order=[v for _, v in sorted(zip(sigma, tn))])
    for v in rc2.nodes:
        rc2.nodes[v]["atom_map"] = v
    for s in ("all", "comp"):
        r2 = reactor(host, rc2, s, invert).its_list
        check_sets_equal(E, r2, res[s], "renumbering-the-template-changes-the-set-of-reactions",
                         dict(info, strategy=s, sigma=sigma, before=len(res[s]), after=len(r2)))
    # substrate rewritten: new ids, reversed insertion order
    hv = list(host.nodes)
    tau = [int(x) for x in E.perm("tau", len(hv))] if tau_sym else [(i + 1) % len(hv) for i in range(len(hv))]
    tmap = {v: 51 + tau[i] for i, v in enumerate(hv)}
    host2 = relabel(host, tmap, order=list(reversed(hv)))
    for s in ("all", "comp"):
        r3 = reactor(host2, rc, s, invert).its_list
        check_sets_equal(E, res[s], r3, "rewriting-the-substrate-changes-the-set-of-reactions",
                         dict(info, strategy=s, tau=tau, before=len(res[s]), after=len(r3)), node_map=tmap)
    # one rule object applied to two substrates in a row: same answers as with fresh rule objects, rule left untouched
    if not invert:
        from synkit.Rule.syn_rule import SynRule
        from harness.reactor_common import NoCanon

        rule_obj = SynRule(rc, canonicaliser=NoCanon(), canon=False, implicit_h=False)
        snap = ({v: dict(d) for v, d in rule_obj.rc.raw.nodes(data=True)},
                {frozenset(e[:2]): dict(e[2]) for e in rule_obj.rc.raw.edges(data=True)})
        first = reactor(host2, rule_obj, "all", False).its_list
        second = reactor(host, rule_obj, "all", False).its_list
        check_sets_equal(E, second, res["all"], "re-used-rule-object-changes-the-result", dict(info, n_first=len(first)))
        snap2 = ({v: dict(d) for v, d in rule_obj.rc.raw.nodes(data=True)},
                 {frozenset(e[:2]): dict(e[2]) for e in rule_obj.rc.raw.edges(data=True)})
        E.check(NOT(EQ(snap, snap2)), "rule-object-modified-by-application", info)
    E.note(nontrivial=len(res["all"]) >= 2 or (len(res["all"]) >= 1 and sigma != sorted(sigma)))
    E.observe((len(res["all"]), len(res["comp"]), len(res["bt"])))


def h_history(E, k, hn, hedges, invert):
    """the same with the library's own canonicaliser (template labels are realised by the signature), a template and its
    permuted twin applied one after the other in one process: the second answer must not depend on the first call."""
    from synkit.Graph.ITS.its_construction import ITSConstruction
    from synkit.Graph.ITS.its_decompose import get_rc

    Gt, Ht, ts = sym_reaction(E, "t", k, hs=(0,), cs=(0,), orders=(0, 1), ids=[11 + i for i in range(k)], els=("C",))
    rc = get_rc(ITSConstruction.ITSGraph(Gt, Ht))
    if rc.number_of_nodes() < 2:
        E.note(nontrivial=False)
        return
    host = sym_substrate(E, "s", hn, hedges, hs=(0, 1), cs=(0,), els=("C",))
    tn = list(rc.nodes)
    sigma = [int(x) for x in E.perm("sigma", len(tn))]
    base = sorted(tn)
    rc2 = relabel(rc, {v: base[sigma[i]] for i, v in enumerate(tn)}, order=[v for _, v in sorted(zip(sigma, tn))])
    for v in rc2.nodes:
        rc2.nodes[v]["atom_map"] = v
    info = dict(template_edges=sorted(map(sorted, rc.edges)), sigma=sigma, host=hedges, invert=invert)
    first = reactor(host, rc, "all", invert, real_canon=True).its_list
    R2 = reactor(host, rc2, "all", invert, real_canon=True)
    second = R2.its_list
    check_sets_equal(E, second, glue_all_raw(R2), "answer-depends-on-an-earlier-call-with-a-renumbered-template",
                     dict(info, n_first=len(first), n_second=len(second)))
    check_sets_equal(E, first, second, "renumbering-the-template-changes-the-set-of-reactions", dict(info, real_canon=True))
    E.note(nontrivial=len(first) >= 2 and sigma != sorted(sigma))
    E.observe((len(first), len(second)))


def h_family(E, family, invert):
    """concrete reaction families with a symmetric centre (>= 3-6 atoms with identical labels) and symbolic substituents:
    pruning loses nothing, and every renumbering of the centre template gives the same reactions."""
    from synkit.Graph.ITS.its_construction import ITSConstruction
    from synkit.Graph.ITS.its_decompose import get_rc

    G, H = family_reaction(E, family)
    rc = get_rc(ITSConstruction.ITSGraph(G, H))
    sub = plain_substrate(H if invert else G)
    info = dict(family=family, invert=invert)
    R = reactor(sub, rc, "all", invert)
    pruned, unpruned = R.its_list, glue_all_raw(R)
    check_sets_equal(E, pruned, unpruned, "symmetry-pruning-changes-the-set-of-distinct-reactions",
                     dict(info, n_pruned=len(pruned), n_raw=len(unpruned)))
    tn = list(rc.nodes)
    sigma = [int(x) for x in E.perm("sigma", len(tn))] if len(tn) <= 4 else [(i * 5 + 2) % len(tn) for i in range(len(tn))]
    base = sorted(tn)
    rc2 = relabel(rc, {v: base[sigma[i]] for i, v in enumerate(tn)}, order=[v for _, v in sorted(zip(sigma, tn))])
    for v in rc2.nodes:
        rc2.nodes[v]["atom_map"] = v
    r2 = reactor(sub, rc2, "all", invert).its_list
    check_sets_equal(E, pruned, r2, "renumbering-the-template-changes-the-set-of-reactions",
                     dict(info, sigma=sigma, before=len(pruned), after=len(r2)))
    E.note(nontrivial=len(unpruned) > len(pruned))
    E.observe((len(pruned), len(unpruned)))


HARNESSES = {"numbering": h_numbering, "history": h_history, "family": h_family}


def shards(tier, seed):
    sh = []
    hosts = [(n, es) for n in (2, 3) for es in all_shapes(n)]
    for hn, he in hosts:
        for invert in (False, True):
            if tier == "quick" and hn == 3 and invert != (len(he) % 2 == 1):
                continue  # quick: one direction per 3-atom substrate shape, both in the thorough tier
            sh.append(dict(h="numbering", params=dict(k=2, hn=hn, hedges=he, invert=invert, cs=[0, 1] if hn == 2 else [0])))
    for hn, he in hosts:
        if hn == 3:
            q = tier == "quick"
            sh.append(dict(h="numbering", params=dict(k=3, hn=hn, hedges=he, invert=(len(he) % 2 == 1), cs=[0],
                                                      hmax_t=0 if q else 1, hmax_s=(1 if len(he) <= 1 else 0) if q else 1, omax_t=1 if q else 2,
                                                      els=["C"] if q else ["C", "O"], tau_sym=not q)))
    for hn, he in hosts:
        if hn == 3:
            sh.append(dict(h="history", params=dict(k=3, hn=hn, hedges=he, invert=False)))
            if tier == "thorough":
                sh.append(dict(h="history", params=dict(k=3, hn=hn, hedges=he, invert=True)))
    for fam in ("2+2", "ene-shift") + (("DA",) if tier == "thorough" else ()):
        for invert in (False, True):
            sh.append(dict(h="family", params=dict(family=fam, invert=invert)))
    sh.append(dict(h="family", params=dict(family="2+2-adj", invert=True)))
    if tier == "thorough":
        for hn, he in hosts:
            if hn == 3:
                sh.append(dict(h="numbering", params=dict(k=3, hn=hn, hedges=he, invert=(len(he) % 2 == 0), cs=[0, 1])))
        for he in all_shapes(4):
            if len(he) <= 3:
                sh.append(dict(h="numbering", params=dict(k=2, hn=4, hedges=he, invert=False, cs=[0])))
    return sh
