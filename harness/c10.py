"""C10 — changing representation (explicit/implicit hydrogens, GML) loses nothing (graph level)."""
from __future__ import annotations

import itertools

import networkx as nx

from symx import AND, OR, NOT, EQ
from vf.graphs import all_shapes, sym_mol, iso_formula, pairs

PROPERTY = "C10"
ALPHABET = ["C", "N", "O", "H", "*", "X", ""]

META = dict(
    bounds=dict(
        quick="hydrogens: all molecule shapes on <=3 heavy atoms (hcount 0..2 symbolic, element in {C,N,O}), explicit -> "
              "implicit -> explicit, partial expansion, implicit_hydrogen with every subset of preserved hydrogens, "
              "reindex on/off; GML: reactions on 2 atoms (both bond orders in {0,1,1.5,2,3}, charges -2..2 on one atom) and "
              "on 3 atoms (orders {0,1,2}, charges {0,1}) under solver-chosen node ids, exported as centre and as full ITS, "
              "core on/off, reindex on/off, and through smart_to_gml with the RDKit parser stubbed",
        thorough="hydrogens on 4 heavy atoms; GML on 3 atoms with orders {0,1,1.5,2} and on 4 atoms (orders {0,1})",
    ),
    outside=["SMILES -> graph -> SMILES (MolToGraph, GraphToMol, sanitisation): RDKit", "gml_to_smart / rule strings to "
             "SMARTS (RDKit)", "explicit_hydrogen=True GML export for atoms that carry hydrogens (the flag itself is exercised on hydrogen-free atoms)", "multi-letter elements and wildcard atoms in GML labels"],
    stubs=["synkit.IO.chem_converter.rsmi_to_graph replaced by a function handing in the two symbolic graphs (RDKit parsing "
           "is outside); everything between that boundary and the GML text runs unchanged"],
    assumptions=["GML carries element, charge and bond orders only: equality / isomorphism is judged on those",
                 "with reindex=True the comparison is up to isomorphism (the exporter chooses the new numbers)",
                 "labels are formatted into text by the exporter: solver-driven exhaustion of the finite space"],
    rule="one evaluation = one realised molecule / reaction; non-trivial = at least one hydrogen moved / at least one bond "
         "or charge changes",
)
WALL = dict(quick=240, thorough=1500)
MIN_PATHS = dict(quick=300, thorough=3000)
MOLKEYS = ["element", "hcount", "charge", "aromatic"]


def snap(g):
    return ({v: dict(d) for v, d in g.nodes(data=True)}, {frozenset(e[:2]): dict(e[2]) for e in g.edges(data=True)})


def total_h(g):
    tot = 0
    for v, d in g.nodes(data=True):
        if d.get("element") == "H":
            tot = tot + 1
        else:
            tot = tot + d.get("hcount", 0)
    return tot


def h_hydrogen(E, n, edges):
    from synkit.Graph.Hyrogen._misc import h_to_explicit, h_to_implicit, implicit_hydrogen

    g, _ = sym_mol(E, "m", n, [tuple(e) for e in edges], elements=("C", "N", "O"), hcounts=(0, 1, 2), charges=(0, 1),
                   orders=(1, 2), atom_map=True)
    before = snap(g)
    tot = total_h(g)
    ex = h_to_explicit(g)
    info = dict(edges=edges)
    n_h = sum(1 for _, d in ex.nodes(data=True) if d.get("element") == "H")
    bad = [NOT(EQ(n_h, tot)), NOT(EQ(total_h(ex), tot))]
    for v in g.nodes:
        bad.append(NOT(EQ(ex.nodes[v].get("hcount"), 0)))
        bad.append(NOT(EQ(sum(1 for w in ex.neighbors(v) if ex.nodes[w].get("element") == "H"), g.nodes[v]["hcount"])))
        for k in ("element", "charge", "aromatic"):
            bad.append(NOT(EQ(ex.nodes[v].get(k), g.nodes[v].get(k))))
    for u, v in g.edges:
        bad.append((not ex.has_edge(u, v)) or NOT(EQ(ex[u][v].get("order"), g[u][v].get("order"))))
    # the new hydrogen atoms are plain hydrogens: neutral, no hydrogens of their own, one single bond
    for w, d in ex.nodes(data=True):
        if w not in g.nodes:
            bad.append(NOT(AND(EQ(d.get("element"), "H"), EQ(d.get("charge", 0), 0), EQ(d.get("hcount", 0), 0))))
            bad.append(ex.degree(w) != 1 or NOT(EQ(ex[w][next(iter(ex.neighbors(w)))].get("order"), 1)))
    E.check(OR(bad), "explicit-form-has-one-H-node-per-counted-hydrogen", dict(info, explicit_nodes=ex.number_of_nodes()))
    E.check(NOT(EQ(snap(g), before)), "h-to-explicit-modifies-its-input", info)
    im = h_to_implicit(ex)
    same = set(im.nodes) == set(g.nodes) and {frozenset(e) for e in im.edges} == {frozenset(e) for e in g.edges}
    bad = [not same]
    if same:
        for v in g.nodes:
            for k in MOLKEYS:
                bad.append(NOT(EQ(im.nodes[v].get(k), g.nodes[v].get(k))))
        for u, v in g.edges:
            bad.append(NOT(EQ(im[u][v].get("order"), g[u][v].get("order"))))
    E.check(OR(bad), "explicit-then-implicit-restores-the-graph", info)
    # partial expansion keeps the total
    first = list(g.nodes)[:1]
    E.check(NOT(EQ(total_h(h_to_explicit(g, first)), tot)), "partial-expansion-keeps-the-hydrogen-total", info)
    # implicit_hydrogen with preserved mapped hydrogens
    exm = ex.copy()
    for v, d in exm.nodes(data=True):
        d["atom_map"] = v
    hs = [v for v, d in exm.nodes(data=True) if d.get("element") == "H"]
    keep = {h for i, h in enumerate(hs[:3]) if bool(E.bool("keep%d" % i))}
    reindex = bool(E.bool("reindex"))
    b2 = snap(exm)
    out = implicit_hydrogen(exm, set(keep), reindex=reindex)
    n_kept = sum(1 for _, d in out.nodes(data=True) if d.get("element") == "H")
    bad = [NOT(EQ(total_h(out), tot)), n_kept != len(keep), out.number_of_nodes() != n + len(keep)]
    if not reindex:
        for v in g.nodes:
            if v in out:
                kept_here = sum(1 for h in keep if exm.has_edge(v, h) or ex.has_edge(v, h))
                bad.append(NOT(EQ(out.nodes[v].get("hcount"), g.nodes[v]["hcount"] - kept_here)))
            else:
                bad.append(True)
    E.check(OR(bad), "implicit-hydrogen-keeps-the-molecule-and-its-hydrogen-total",
            dict(info, keep=sorted(keep), reindex=reindex, out_nodes=sorted(out.nodes)))
    E.check(NOT(EQ(snap(exm), b2)), "implicit-hydrogen-modifies-its-input", dict(info, keep=sorted(keep)))
    E.note(nontrivial=n_h > 0)
    E.observe((n_h, sorted(im.nodes)))


# ---------------------------------------------------------------------------------------------------- GML
def sym_reaction(E, ids, orders, charges1, chargesN):
    """reactant/product graphs on concrete ids with symbolic element/charge/orders (realised by the exporter)."""
    G, H = nx.Graph(), nx.Graph()
    for k, v in enumerate(ids):
        el = E.choice("el%d" % k, ["C", "N"]) if (k == 0 or len(ids) == 2) else ["O", "C", "N"][k % 3]
        dom = charges1 if k == 0 else chargesN
        cg = E.choice("cG%d" % k, dom) if len(dom) > 1 else dom[0]
        ch = E.choice("cH%d" % k, dom) if len(dom) > 1 else dom[0]
        G.add_node(v, element=el, charge=cg, hcount=0, aromatic=False, atom_map=v)
        H.add_node(v, element=el, charge=ch, hcount=0, aromatic=False, atom_map=v)
    for (a, b) in pairs(list(range(len(ids)))):
        og = E.choice("oG%d_%d" % (a, b), orders)
        oh = E.choice("oH%d_%d" % (a, b), orders)
        if bool(og > 0):
            G.add_edge(ids[a], ids[b], order=og)
        if bool(oh > 0):
            H.add_edge(ids[a], ids[b], order=oh)
    return G, H


def its_iso(a, b):
    """ITS graphs equal up to isomorphism on element, charge pair and order pair."""
    def nlab(g, v):
        t = g.nodes[v].get("typesGH")
        return (g.nodes[v].get("element"), t[0][3], t[1][3]) if t else (g.nodes[v].get("element"), None, None)

    return iso_formula(a, b, lambda u, v: EQ(nlab(a, u), nlab(b, v)),
                       lambda e, f: EQ(tuple(a[e[0]][e[1]]["order"]), tuple(b[f[0]][f[1]]["order"])))


def its_same(a, b):
    if set(a.nodes) != set(b.nodes) or {frozenset(e) for e in a.edges} != {frozenset(e) for e in b.edges}:
        return False
    c = []
    for v in a.nodes:
        ta, tb = a.nodes[v]["typesGH"], b.nodes[v]["typesGH"]
        c.append(EQ((a.nodes[v]["element"], ta[0][3], ta[1][3]), (b.nodes[v]["element"], tb[0][3], tb[1][3])))
    for u, v in a.edges:
        c.append(EQ(tuple(a[u][v]["order"]), tuple(b[u][v]["order"])))
    return AND(c)


def h_gml(E, n, orders, charges1, chargesN, idpool):
    from synkit.IO import chem_converter as cc
    from synkit.Graph.ITS.its_construction import ITSConstruction
    from synkit.Graph.ITS.its_decompose import get_rc

    pi = [int(x) for x in E.perm("pos", len(idpool))][:n]
    ids = [idpool[p] for p in pi]
    G, H = sym_reaction(E, ids, orders, charges1, chargesN)
    its = ITSConstruction().ITSGraph(G, H)
    rc = get_rc(its)
    info = dict(ids=ids, rc_nodes=sorted(rc.nodes), rc_edges=sorted(map(sorted, rc.edges)))
    if rc.number_of_nodes() == 0:
        E.note(nontrivial=False)
        E.check(False, "empty-centre")
        return
    outs = {}
    for reindex in (False, True):
        txt = cc.its_to_gml(rc, core=True, reindex=reindex)
        back = cc.gml_to_its(txt)
        outs["rc", reindex] = back
        ok = its_same(back, rc) if not reindex else its_iso(back, rc)
        E.check(NOT(ok), "centre-rule-survives-its-gml-its", dict(info, reindex=reindex, gml=txt))
        # the full ITS supplied, core requested: must be the same rule
        txt_f = cc.its_to_gml(its, core=True, reindex=reindex)
        back_f = cc.gml_to_its(txt_f)
        E.check(NOT(its_iso(back_f, rc)), "full-its-with-core-gives-the-centre-rule", dict(info, reindex=reindex, gml=txt_f))
        # full export keeps every atom and bond
        txt_a = cc.its_to_gml(its, core=False, reindex=reindex)
        back_a = cc.gml_to_its(txt_a)
        ok = its_same(back_a, its) if not reindex else its_iso(back_a, its)
        E.check(NOT(ok), "full-rule-survives-its-gml-its", dict(info, reindex=reindex, gml=txt_a))
    # explicit_hydrogen=True additionally writes the unchanged bonds into the context section (no hydrogen counts here, so
    # no hydrogen atoms are added): same rule
    for core, src, want in ((True, rc, rc), (False, its, its)):
        txt_x = cc.its_to_gml(src, core=core, reindex=False, explicit_hydrogen=True)
        back_x = cc.gml_to_its(txt_x)
        E.check(NOT(its_same(back_x, want)), "rule-survives-export-with-explicit-hydrogen-flag", dict(info, core=core, gml=txt_x))
    # the documented second route: from the reaction string (parser stubbed at the RDKit boundary)
    orig = cc.rsmi_to_graph
    cc.rsmi_to_graph = lambda smart, sanitize=True, **kw: (G.copy(), H.copy())
    try:
        for core in (True, False):
            txt_s = cc.smart_to_gml("<stub>", core=core)
            back_s = cc.gml_to_its(txt_s)
            want = rc if core else its
            E.check(NOT(its_iso(back_s, want)), "rule-from-reaction-string-equals-rule-from-its", dict(info, core=core, gml=txt_s))
    finally:
        cc.rsmi_to_graph = orig
    E.note(nontrivial=rc.number_of_edges() > 0 and rc.number_of_nodes() < n or rc.number_of_edges() > 1)
    E.observe(sorted(rc.nodes))


HARNESSES = {"hydrogen": h_hydrogen, "gml": h_gml}


def shards(tier, seed):
    sh = []
    for n in ((1, 2, 3) if tier == "quick" else (1, 2, 3, 4)):
        for es in all_shapes(n):
            if n == 4 and len(es) > 4:
                continue
            sh.append(dict(h="hydrogen", params=dict(n=n, edges=es)))
    sh.append(dict(h="gml", params=dict(n=2, orders=[0, 1, 1.5, 2, 3], charges1=[-2, -1, 0, 1, 2], chargesN=[0], idpool=[4, 11])))
    sh.append(dict(h="gml", params=dict(n=2, orders=[0, 1, 2], charges1=[0, 1], chargesN=[-1, 0, 2], idpool=[7, 2, 30])))
    sh.append(dict(h="gml", params=dict(n=3, orders=[0, 1, 2], charges1=[0, 1], chargesN=[0], idpool=[5, 2, 9])))
    if tier == "thorough":
        sh.append(dict(h="gml", params=dict(n=3, orders=[0, 1, 1.5, 2], charges1=[0, 1], chargesN=[0], idpool=[5, 2, 9, 1])))
        sh.append(dict(h="gml", params=dict(n=4, orders=[0, 1], charges1=[0, 1], chargesN=[0], idpool=[5, 2, 9, 1])))
    return sh
