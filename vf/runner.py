"""Parallel shard runner: distributes decision-prefix sub-trees of every shard over worker processes,
collects statistics, shadow-validates paths, replays counterexamples, writes evidence."""
from __future__ import annotations

import hashlib
import importlib
import json
import multiprocessing as mp
import os
import subprocess
import sys
import time
from collections import defaultdict, deque

ROOT = os.path.dirname(os.path.dirname(os.path.abspath(__file__)))
NPROC = int(os.environ.get("VERIF_JOBS", "16"))
REPO = os.environ.get("VERIF_REPO", "/repo")


def load(pid):
    return importlib.import_module("harness." + pid.lower())


# ------------------------------------------------------------------------------------------------ worker
def preload(mod):
    """import every synkit module the harness imports lazily, then snapshot process-wide state (symx.isolate)"""
    import re

    from symx import isolate

    if getattr(mod, "_preloaded", False):
        return
    files = [mod.__file__, os.path.join(os.path.dirname(mod.__file__), "reactor_common.py"),
             os.path.join(ROOT, "vf", "graphs.py")]
    names = set()
    for f in files:
        try:
            src = open(f).read()
        except OSError:
            continue
        names.update(re.findall(r"from\s+(synkit[\w.]*)\s+import", src))
        names.update(re.findall(r"^\s*import\s+(synkit[\w.]*)", src, flags=re.M))
    import warnings

    with warnings.catch_warnings():
        warnings.simplefilter("ignore")
        for n in sorted(names):
            try:
                importlib.import_module(n)
            except Exception:
                pass
    isolate.snapshot()
    mod._preloaded = True


def _jsonable(o):
    from fractions import Fraction

    if isinstance(o, dict):
        return {str(k): _jsonable(v) for k, v in o.items()}
    if isinstance(o, (list, tuple, set, frozenset)):
        return [_jsonable(x) for x in o]
    if isinstance(o, Fraction):
        return float(o)
    if isinstance(o, (int, float, str, bool)) or o is None:
        return o
    return repr(o)


def _work(job):
    """Explore the sub-tree below job['prefixes'] for at most job['slice'] seconds."""
    from symx.engine import Engine, run_concrete

    mod = load(job["pid"])
    preload(mod)
    fn = mod.HARNESSES[job["h"]]
    params = job["params"]
    alphabet = getattr(mod, "ALPHABET", ())
    eng = Engine(qtimeout_ms=job.get("qtimeout_ms", 10000), alphabet=alphabet)
    eng.frontier = list(job["prefixes"])
    eng.xs_every = job.get("xs_every", 0)
    t_end = time.monotonic() + job["slice"]
    eng.deadline = t_end + 20  # a single path may overrun its slice by at most this
    shadow_every = job["shadow_every"]
    out = dict(
        sid=job["sid"], paths=0, nontrivial=0, violations=[], errors=[], diverged=[], samples=[],
        shadow_ok=0, shadow_bad=[], functions=[], budget_paths=0, reached=0, max_depth=0,
    )
    prof_funcs = None
    if job.get("profile"):
        prof_funcs = set()

        def prof(frame, event, arg):
            if event == "call":
                co = frame.f_code
                f = co.co_filename
                if f.startswith(REPO + "/synkit/"):
                    prof_funcs.add(f[len(REPO) + 1:] + ":" + co.co_qualname)

    stop = False
    while eng.frontier and not stop and time.monotonic() < t_end:
        prefix = eng.frontier.pop()
        if prof_funcs is not None and out["paths"] == 0:
            sys.setprofile(prof)
        try:
            status, err = eng.run_path(fn, prefix, params)
        finally:
            sys.setprofile(None)
        model = None
        vals = None
        if status == "ok":
            out["paths"] += 1
            out["max_depth"] = max(out["max_depth"], len(eng.trace))
            if eng.path_checks:
                out["reached"] += 1
            if eng.notes.get("nontrivial"):
                out["nontrivial"] += 1
            want_sample = len(out["samples"]) < 2
            want_shadow = shadow_every and (out["paths"] % shadow_every == 1 or shadow_every == 1)
            if want_sample or want_shadow or eng.violations:
                try:
                    model = eng.get_model()
                    vals = eng.model_inputs(model)
                    obs = eng.eval_observed(model) if eng.observed is not None else None
                except BaseException as e:  # PathAbort on unknown
                    model = None
            if want_sample and vals is not None:
                out["samples"].append(dict(harness=job["h"], params=params, inputs=vals,
                                           decisions=len(eng.trace), notes=_jsonable(eng.notes)))
            sym_viol = {v.clause for v in eng.violations}
        elif status == "error":
            out["errors"].append(dict(h=job["h"], params=params, inputs=getattr(eng, "error_inputs", None), err=err))
            stop = True
        elif status == "diverged":
            out["diverged"].append(dict(h=job["h"], params=params, prefix=list(prefix), err=err))
            stop = True
        elif status == "budget":
            out["budget_paths"] += 1
            eng.frontier.append(prefix)
            eng.end_path()
            break
        viols = [(v.clause, v.inputs, v.detail) for v in eng.violations]
        eng.end_path()
        if status == "ok" and model is not None and want_shadow and not viols:
            env, st, cerr = run_concrete(fn, params, vals, alphabet)
            bad = None
            if st != "ok":
                bad = "concrete run status %s: %s" % (st, cerr)
            elif any(r[1] for r in env.results):
                bad = "concrete run violates %s but the symbolic path proved it" % [r[0] for r in env.results if r[1]]
            elif eng.observed is not None and _jsonable(env.observed) != _jsonable(obs):
                bad = "observable differs: concrete %r symbolic %r" % (_jsonable(env.observed), _jsonable(obs))
            if bad:
                out["shadow_bad"].append(dict(h=job["h"], params=params, inputs=vals, why=bad))
                stop = True
            else:
                out["shadow_ok"] += 1
        for clause, inputs, detail in viols:
            out["violations"].append(dict(h=job["h"], params=params, clause=clause, inputs=inputs, detail=_jsonable(detail)))
        if viols:
            stop = True
    out["frontier"] = list(eng.frontier)
    out["stats"] = dict(
        decisions=eng.n_decisions, forks=eng.n_forks, realize=eng.n_realize, queries=eng.n_queries,
        solver_s=eng.solver_s, infeasible=eng.n_infeasible, inconclusive=eng.n_inconclusive,
        checks=eng.n_checks, xs_checked=eng.xs_checked, xs_agree=eng.xs_agree, xs_unknown=eng.xs_unknown,
    )
    out["xs_disagree"] = eng.xs_disagree
    if prof_funcs is not None:
        out["functions"] = sorted(prof_funcs)
    return out


# ------------------------------------------------------------------------------------------------ master
class ShardState:
    def __init__(self, sid, spec):
        self.sid = sid
        self.spec = spec
        self.pending = deque([[()]])  # list of prefix lists
        self.inflight = 0
        self.cpu = 0.0
        self.done = False
        self.exhausted = False
        self.stopped = None
        self.tot = defaultdict(float)
        self.paths = 0
        self.profiled = False


def run_property(pid, tier, seed, wall_budget=None, verbose=True):
    t0 = time.monotonic()
    mod = load(pid)
    specs = mod.shards(tier, seed)
    if os.environ.get("VERIF_SHARDS_JSON"):  # development aid: explore an ad-hoc shard list (never used by registered commands)
        specs = json.loads(os.environ["VERIF_SHARDS_JSON"])
    if os.environ.get("VERIF_ONLY"):  # development aid: restrict to one harness (never used by registered commands)
        specs = [s for s in specs if s["h"] in os.environ["VERIF_ONLY"].split(",")]
        if os.environ.get("VERIF_ONLY_PARAMS"):
            want = json.loads(os.environ["VERIF_ONLY_PARAMS"])
            specs = [s for s in specs if all(s["params"].get(k) == v for k, v in want.items())]
    wall_budget = wall_budget or getattr(mod, "WALL", {}).get(tier, 120 if tier == "quick" else 1200)
    t_deadline = t0 + wall_budget
    shards = [ShardState(i, s) for i, s in enumerate(specs)]
    shadow_every = getattr(mod, "SHADOW_EVERY", {}).get(tier, 25 if tier == "quick" else 5)
    agg = dict(paths=0, nontrivial=0, reached=0, shadow_ok=0, max_depth=0)
    stats = defaultdict(float)
    violations, errors, diverged, shadow_bad, samples = [], [], [], [], []
    functions = set()
    ctx = mp.get_context("fork")
    pool = ctx.Pool(NPROC)
    inflight = {}
    jid = 0
    slice_s = 6.0 if tier == "quick" else 15.0
    xs_every = int(os.environ.get("VERIF_XSOLVER", "3000" if tier == "quick" else "400"))
    xs_disagree = []

    def submit():
        nonlocal jid
        progressed = True
        while len(inflight) < NPROC and progressed:
            progressed = False
            # round robin over shards with pending work, fewest inflight first
            cands = [s for s in shards if s.pending and not s.done]
            cands.sort(key=lambda s: (s.inflight, s.cpu))
            for s in cands:
                if len(inflight) >= NPROC:
                    break
                prefixes = s.pending.popleft()
                job = dict(pid=pid, sid=s.sid, h=s.spec["h"], params=s.spec.get("params", {}), prefixes=prefixes,
                           slice=slice_s, shadow_every=shadow_every, profile=not s.profiled,
                           qtimeout_ms=s.spec.get("qtimeout_ms", 10000), xs_every=xs_every)
                s.profiled = True
                s.inflight += 1
                inflight[jid] = (s, pool.apply_async(_work, (job,)), time.monotonic())
                jid += 1
                progressed = True

    fatal = None
    try:
        submit()
        while inflight:
            time.sleep(0.02)
            for k in list(inflight):
                s, ar, ts = inflight[k]
                if not ar.ready():
                    continue
                del inflight[k]
                s.inflight -= 1
                try:
                    out = ar.get()
                except Exception as e:  # worker crashed
                    fatal = "worker failed: %r" % (e,)
                    s.done = True
                    continue
                s.cpu += time.monotonic() - ts
                s.paths += out["paths"]
                for key in ("paths", "nontrivial", "reached", "shadow_ok"):
                    agg[key] += out[key]
                agg["max_depth"] = max(agg["max_depth"], out["max_depth"])
                for key, v in out["stats"].items():
                    stats[key] += v
                    s.tot[key] += v
                functions.update(out["functions"])
                if len(samples) < 6:
                    samples.extend(out["samples"][: 6 - len(samples)])
                violations.extend(out["violations"])
                errors.extend(out["errors"])
                diverged.extend(out["diverged"])
                shadow_bad.extend(out["shadow_bad"])
                xs_disagree.extend(out.get("xs_disagree", []))
                if out["violations"] or out["errors"] or out["diverged"] or out["shadow_bad"]:
                    s.done = True
                    s.stopped = "finding"
                    s.pending.clear()
                elif not s.done:
                    fr = out["frontier"]
                    if fr:
                        # split the leftover frontier: deep prefixes (end of list) are small sub-trees
                        nchunk = min(len(fr), 4)
                        for c in range(nchunk):
                            chunk = fr[c::nchunk]
                            if chunk:
                                s.pending.append(chunk)
                    budget = s.spec.get("budget")
                    if budget and s.cpu > budget and (s.pending or s.inflight):
                        s.done = True
                        s.stopped = "shard budget"
                        s.pending.clear()
                if not s.pending and s.inflight == 0 and not s.done:
                    s.done = True
                    s.exhausted = True
            if time.monotonic() > t_deadline:
                for s in shards:
                    if not s.done:
                        s.done = True
                        s.stopped = "tier wall budget"
                        s.pending.clear()
            submit()
    finally:
        pool.terminate()
        pool.join()
    wall = time.monotonic() - t0
    res = dict(
        pid=pid, tier=tier, seed=seed, wall=wall, agg=agg, stats=dict(stats), violations=violations, errors=errors,
        diverged=diverged, shadow_bad=shadow_bad, samples=samples, functions=sorted(functions), fatal=fatal,
        xs_disagree=xs_disagree,
        shards=[dict(h=s.spec["h"], params=s.spec.get("params", {}), paths=s.paths, exhausted=s.exhausted,
                     stopped=s.stopped, cpu_s=round(s.cpu, 2), queries=int(s.tot["queries"]),
                     solver_s=round(s.tot["solver_s"], 3)) for s in shards],
    )
    return res, mod


# ------------------------------------------------------------------------------------------------ replay
def write_replay(pid, v):
    d = os.path.join(ROOT, "replays", pid)
    os.makedirs(d, exist_ok=True)
    body = dict(property=pid, harness=v["h"], params=v["params"], inputs=v["inputs"], clause=v["clause"],
                detail=v.get("detail"))
    dig = hashlib.sha1(json.dumps(body, sort_keys=True, default=str).encode()).hexdigest()[:10]
    path = os.path.join(d, "%s-%s.json" % (v["h"], dig))
    with open(path, "w") as f:
        json.dump(body, f, indent=1, sort_keys=True, default=str)
    return path


def replay_file(path):
    """Run in a fresh interpreter (see cli --replay).  Returns (reproduced, text)."""
    from symx.engine import run_concrete

    body = json.load(open(path))
    mod = load(body["property"])
    preload(mod)
    fn = mod.HARNESSES[body["harness"]]
    env, st, err = run_concrete(fn, body["params"], body["inputs"], getattr(mod, "ALPHABET", ()))
    clause = body["clause"]
    if clause.startswith("exception"):
        if st == "error":
            return True, "real code raised on the concrete input:\n" + err
        return False, "no exception on the concrete input (status %s)" % st
    hit = [r for r in env.results if r[0] == clause and r[1]]
    if st != "ok" and not hit:
        return False, "concrete run status %s: %s" % (st, err)
    if hit:
        return True, "clause %r violated by the real code on the concrete input; detail: %s" % (
            clause, json.dumps(_jsonable(hit[0][2]), default=str)[:2000])
    return False, "clause %r holds on the concrete input" % clause


def replay_subprocess(path):
    env = dict(os.environ, PYTHONHASHSEED="0", PYTHONPATH=REPO + ":" + ROOT)
    p = subprocess.run([sys.executable, "-m", "vf.cli", "--replay", path], cwd=ROOT, env=env,
                       capture_output=True, text=True, timeout=600)
    return p.returncode == 1, p.stdout + p.stderr
