"""vf/seedimport.py <worktree> <seed-name> <property> <needs...> : copy a confirmed seeded change into /verif/seeded/"""
import json, os, shutil, sys
wt, name, prop = sys.argv[1:4]
needs = " ".join(sys.argv[4:])
src = os.path.join(wt, "SEED", name)
dst = os.path.join("/verif/seeded", name)
missing = [f for f in ("patch.diff", "demo.py", "notes.md") if not os.path.isfile(os.path.join(src, f))]
if missing:
    sys.exit("seedimport: %s lacks %s - nothing imported" % (src, missing))
os.makedirs(dst, exist_ok=True)
for f in ("patch.diff", "demo.py", "notes.md"):
    shutil.copy(os.path.join(src, f), os.path.join(dst, f))
meta = dict(id=name, property=prop, needs=needs,
            confirmed=dict(how="vf/seedverify.sh in the scratch worktree: patch applies to a clean tree, full pytest suite passes "
                               "with it, demo.py exits non-zero with it and 0 without it",
                           result=[l.strip() for l in open("/var/tmp/seedverify1.log") if l.startswith(name + ":")] if os.path.exists("/var/tmp/seedverify1.log") else []),
            detection=None)
mp = os.path.join(dst, "meta.json")
if os.path.exists(mp):
    old = json.load(open(mp))
    meta["detection"] = old.get("detection")
    if not meta["confirmed"]["result"]:
        meta["confirmed"] = old["confirmed"]
json.dump(meta, open(mp, "w"), indent=1)
print("imported", name)
