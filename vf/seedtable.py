"""vf/seedtable.py: writes seeded/INDEX.md from seeded/*/meta.json (what each seeded change needs, how it was confirmed, which
check run by vf/seedall.py caught it)."""
import glob, json, os
rows = []
for mp in sorted(glob.glob("/verif/seeded/*/meta.json")):
    m = json.load(open(mp))
    det = m.get("detection") or {}
    cells = []
    for k, v in sorted(det.items()):
        cells.append("%s: %s" % (k, ("CAUGHT (" + ", ".join(v["clauses"][:3]) + ")") if v["caught"] else "missed (exit %d)" % v["exit"]))
    conf = (m["confirmed"].get("result") or ["?"])[-1]
    conf = conf.split(":", 1)[1].strip() if ":" in conf else conf
    rows.append("| %s | %s | %s | %s | %s |" % (m["id"], m["property"], m["needs"].replace("|", "/"), conf.replace("|", "/"), "<br>".join(cells) or "not run"))
out = ["# Seeded changes", "",
       "One directory per change: `patch.diff` (apply with `git -C /repo apply`), `demo.py` (exits non-zero with the change), `notes.md` (the author's notes), `meta.json`.",
       "Written by independent sub-agents that saw only the property text; never committed to the repository.", "",
       "| id | property | needs to manifest | confirmation (vf/seedverify.sh) | check runs (vf/seedall.py) |", "|---|---|---|---|---|"] + rows
open("/verif/seeded/INDEX.md", "w").write("\n".join(out) + "\n")
caught = sum(1 for mp in glob.glob("/verif/seeded/*/meta.json") if any(v["caught"] for v in (json.load(open(mp)).get("detection") or {}).values()))
print(len(rows), "seeds;", caught, "caught by at least one recorded run")
