#!/bin/bash
# usage: vf/seedverify.sh <worktree> <seed-name>    verifies: patch applies, suite passes with it, demo fails with / passes without
WT=$1; S=$2; D=$WT/SEED/$S
cd $WT || exit 3
git checkout -q -- . ; git status --short | grep -v SEED
PYTHONPATH=$WT /venv/bin/python $D/demo.py >/dev/null 2>&1; clean=$?
git apply $D/patch.diff || { echo "$S: patch does not apply"; exit 3; }
suite=$(PYTHONPATH=$WT /venv/bin/python -m pytest -q -p no:cacheprovider --timeout=900 2>&1 | tail -1)
PYTHONPATH=$WT /venv/bin/python $D/demo.py >/dev/null 2>&1; mut=$?
git checkout -q -- .
echo "$S: demo clean=$clean mutated=$mut suite: $suite"
