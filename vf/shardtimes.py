"""vf/shardtimes.py <id>...: per-shard CPU seconds from evidence/<id>.json (development aid for sizing the tiers)"""
import json, sys
for pid in sys.argv[1:]:
    e = json.load(open("/verif/evidence/%s.json" % pid))
    sh = sorted(e["coverage"]["shards"], key=lambda x: -x["cpu_s"])
    tot = sum(x["cpu_s"] for x in sh)
    print("%s tier=%s wall=%.0fs cpu=%.0fs exhaustive=%s shards=%d" % (pid, e["tier"], e["wall_s"], tot, e["coverage"]["exhaustive"], len(sh)))
    for x in sh[:8]:
        print("   %7.1fs %6d paths %s %s%s" % (x["cpu_s"], x["paths"], x["h"], json.dumps(x["params"])[:150], "" if x["exhausted"] else "  [NOT EXHAUSTED: %s]" % x["stopped"]))
