"""python3-vt -m ... : validate MANIFEST.json and evidence files against the schemas."""
import json, sys, glob
import jsonschema
ok = True
m = json.load(open('/verif/MANIFEST.json'))
jsonschema.validate(m, json.load(open('/root/.vp/MANIFEST.schema.json')))
es = json.load(open('/root/.vp/EVIDENCE.schema.json'))
for f in sorted(glob.glob('/verif/evidence/*.json')):
    try:
        jsonschema.validate(json.load(open(f)), es)
    except Exception as e:
        ok = False
        print('INVALID', f, str(e)[:300])
ids = [c['property_id'] for c in m['checks']] + [n['property_id'] for n in m.get('not_applicable', [])]
print('manifest ok; claimed', len(m['checks']), 'n/a', len(m.get('not_applicable', [])), 'missing', sorted(set('C%02d' % i for i in range(1, 21)) - set(ids)))
sys.exit(0 if ok else 1)
