"""An adversarial but contract-conforming replacement for the builtin id(), installed as a module attribute of the code
under test: an object gets the lowest address that no *live* earlier object holds, i.e. addresses are recycled as eagerly
as CPython's contract allows (two objects with overlapping lifetimes never share one).  Liveness is observed through weak
references after a collection; objects that cannot be weakly referenced get a fresh address each."""
import gc
import weakref


class RecyclingId:
    def __init__(self):
        self.slots = []  # (weakref, address)
        self.fresh = 10**6
        self.real = id

    def __call__(self, obj):
        for w, a in self.slots:
            if w() is obj:
                return a
        try:
            w = weakref.ref(obj)
        except TypeError:
            self.fresh += 1
            return self.fresh
        gc.collect()
        taken = {a for ww, a in self.slots if ww() is not None}
        self.slots = [(ww, a) for ww, a in self.slots if ww() is not None]
        a = 1000
        while a in taken:
            a += 1
        self.slots.append((w, a))
        return a


class recycled_ids:
    """with recycled_ids(module, ...): id() inside those modules recycles addresses eagerly"""

    def __init__(self, *modules):
        self.modules = modules
        self.saved = []

    def __enter__(self):
        stub = RecyclingId()
        for m in self.modules:
            self.saved.append((m, m.__dict__.get("id", None), "id" in m.__dict__))
            m.id = stub
        return stub

    def __exit__(self, *exc):
        for m, old, had in self.saved:
            if had:
                m.id = old
            else:
                try:
                    del m.id
                except AttributeError:
                    pass
        return False
