"""Graph families, symbolic graph builders and isomorphism oracles written as formulas."""
from __future__ import annotations

import itertools

import networkx as nx

from symx import AND, OR, NOT, EQ, GE, IFF

ELEMENTS = ["C", "H", "N", "O"]
ORDERS = [0, 1, 1.5, 2, 3]


def pairs(nodes):
    return list(itertools.combinations(nodes, 2))


_shape_cache = {}


def all_shapes(n, connected=None, max_edges=None):
    """All simple graphs on nodes 1..n up to isomorphism, as sorted edge lists."""
    key = (n, connected, max_edges)
    if key in _shape_cache:
        return _shape_cache[key]
    nodes = list(range(1, n + 1))
    ps = pairs(nodes)
    seen = set()
    out = []
    for k in range(len(ps) + 1):
        if max_edges is not None and k > max_edges:
            break
        for es in itertools.combinations(ps, k):
            g = nx.Graph()
            g.add_nodes_from(nodes)
            g.add_edges_from(es)
            if connected is True and n > 0 and not nx.is_connected(g):
                continue
            if connected is False and nx.is_connected(g):
                continue
            canon = min(
                tuple(sorted(tuple(sorted((p[u - 1], p[v - 1]))) for u, v in es))
                for p in itertools.permutations(nodes)
            )
            if canon in seen:
                continue
            seen.add(canon)
            out.append([list(e) for e in canon])
    _shape_cache[key] = out
    return out


def shape_name(n, edges):
    return "n%d:%s" % (n, ",".join("%d-%d" % tuple(e) for e in edges) or "-")


def sym_mol(E, pre, n, edges, elements=("C", "N"), hcounts=(0, 1), charges=(0,), orders=(1, 2), aromatic=(False,),
            extra=None, node_ids=None, atom_map=False):
    """A molecule-like nx.Graph on a concrete shape with symbolic labels.  Returns (graph, labels) where labels holds
    the symbols: labels['el'][v], ['h'][v], ['c'][v], ['ar'][v], ['o'][(u,v)]."""
    ids = node_ids or list(range(1, n + 1))
    g = nx.Graph()
    lab = dict(el={}, h={}, c={}, ar={}, o={})
    for i, v in enumerate(ids):
        el = E.choice("%sel%d" % (pre, i + 1), list(elements)) if len(elements) > 1 else elements[0]
        h = E.choice("%sh%d" % (pre, i + 1), list(hcounts)) if len(hcounts) > 1 else hcounts[0]
        c = E.choice("%sc%d" % (pre, i + 1), list(charges)) if len(charges) > 1 else charges[0]
        ar = E.choice("%sar%d" % (pre, i + 1), list(aromatic)) if len(aromatic) > 1 else aromatic[0]
        lab["el"][v], lab["h"][v], lab["c"][v], lab["ar"][v] = el, h, c, ar
        attrs = dict(element=el, hcount=h, charge=c, aromatic=ar)
        if atom_map:
            attrs["atom_map"] = v
        if extra:
            attrs.update(extra)
        g.add_node(v, **attrs)
    for (a, b) in edges:
        u, v = ids[a - 1], ids[b - 1]
        o = E.choice("%so%d_%d" % (pre, a, b), list(orders)) if len(orders) > 1 else orders[0]
        lab["o"][(u, v)] = o
        lab["o"][(v, u)] = o
        g.add_edge(u, v, order=o)
    return g, lab


def node_label_eq(g1, u, g2, v, keys):
    return AND([EQ(g1.nodes[u].get(k), g2.nodes[v].get(k)) for k in keys])


def iso_formula(g1, g2, node_eq, edge_eq, induced=True, bijective=True):
    """There is an injection f: V(g1) -> V(g2) with node_eq(u, f(u)) for all u, every edge of g1 mapped onto an edge
    of g2 with edge_eq, and (if induced) non-edges onto non-edges.  With bijective=True also |V| equal.
    Structure (which edges exist) is concrete; labels may be symbolic."""
    n1, n2 = list(g1.nodes), list(g2.nodes)
    if bijective and (len(n1) != len(n2) or g1.number_of_edges() != g2.number_of_edges()):
        return False
    if len(n1) > len(n2):
        return False
    # backtracking over adjacency-consistent assignments; a node pair whose labels differ concretely is never tried
    cand = {}
    for u in n1:
        cs = []
        for w in n2:
            if bijective and g1.degree(u) != g2.degree(w):
                continue
            if g1.degree(u) > g2.degree(w):
                continue
            c = node_eq(u, w)
            if c is False:
                continue
            cs.append((w, c))
        if not cs:
            return False
        cand[u] = cs
    order = sorted(n1, key=lambda u: len(cand[u]))
    alts = []
    hit = [False]

    def rec(i, f, used, conj):
        if hit[0]:
            return
        if i == len(order):
            c = AND(conj)
            if c is True:
                hit[0] = True
            elif c is not False:
                alts.append(c)
            return
        u = order[i]
        for w, c in cand[u]:
            if w in used:
                continue
            extra = [] if c is True else [c]
            ok = True
            for v, x in f.items():
                e1, e2 = g1.has_edge(u, v), g2.has_edge(w, x)
                if e1 and not e2:
                    ok = False
                    break
                if induced and e2 and not e1:
                    ok = False
                    break
                if e1:
                    ce = edge_eq((u, v), (w, x))
                    if ce is False:
                        ok = False
                        break
                    if ce is not True:
                        extra.append(ce)
            if not ok:
                continue
            f[u] = w
            used.add(w)
            rec(i + 1, f, used, conj + extra)
            used.discard(w)
            del f[u]

    rec(0, {}, set(), [])
    if hit[0]:
        return True
    return OR(alts)


def injections(src, dst):
    for img in itertools.permutations(dst, len(src)):
        yield dict(zip(src, img))


def relabel(g, mapping, order=None):
    """Copy of g with nodes renamed; nodes inserted in `order` (list of old ids), edges in stored order."""
    h = nx.Graph()
    for v in (order or list(g.nodes)):
        h.add_node(mapping[v], **dict(g.nodes[v]))
    for u, v, d in g.edges(data=True):
        h.add_edge(mapping[u], mapping[v], **dict(d))
    return h


def graph_eq(a, b, node_keys, edge_keys):
    """Equality of node set, edge set (concrete) and the listed attributes (formula)."""
    if set(a.nodes) != set(b.nodes):
        return False
    if {frozenset(e) for e in a.edges} != {frozenset(e) for e in b.edges}:
        return False
    conj = []
    for v in a.nodes:
        for k in node_keys:
            conj.append(EQ(a.nodes[v].get(k), b.nodes[v].get(k)))
    for u, v in a.edges:
        for k in edge_keys:
            conj.append(EQ(a[u][v].get(k), b[u][v].get(k)))
    return AND(conj)
