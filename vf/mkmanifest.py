"""Regenerates /verif/MANIFEST.json from the table below (run: python3 vf/mkmanifest.py)."""
import json
import os

ROOT = os.path.dirname(os.path.dirname(os.path.abspath(__file__)))
TECH = ("bounded symbolic execution of the real Python code (symx: proxy values + z3; every feasible path within the "
        "bounds; the negated property is a z3 query per path; counterexamples replayed concretely on the real code)")

CLAIMED = {
    "C01": ("Bounded symbolic model checking of ITSConstruction.construct/ITSGraph and its_decompose on the real code: "
            "reactant and product graph on a shared node set with every label and every bond order of both sides "
            "symbolic (presence = order > 0); one z3 query per path decides the labelled-union clause and the "
            "decomposition round trip for all label values at once.",
            "Bounds: n<=3 atoms with all H-side insertion orders and edge orientations and all flag combinations, n=4 in "
            "reduced form (quick) / all flags (thorough). SMILES-level clauses (rsmi_to_its/its_to_rsmi) need RDKit "
            "and are outside."),
    "C02": ("Bounded symbolic model checking of get_rc and RadiusExpand.extract_k on the real code: centre membership is "
            "decided per path against the formula 'order changes or H-H', idempotence, equivariance under a "
            "solver-chosen renumbering, and radius-k contexts against concrete graph distance, induced-subgraph "
            "equality and nesting.",
            "Bounds: reactions on n<=3 (thorough 4) atoms through the real ITS construction; synthetic ITS graphs on all "
            "4-node shapes, P5, P6, 5-ring (thorough: all 5-node shapes <=6 bonds, P7, 6-ring), radii 0..3."),
    "C03": ("Bounded symbolic model checking of the whole rule-application pipeline on the real code (SynRule construction, "
            "VF2 matching, symmetry pruning, _glue_graph/_node_glue, template inversion): for every proposed reaction the "
            "reactant side equals the substrate, elements/hydrogens/charge are conserved, and there is a placement of the "
            "template at which the result differs from the substrate by exactly the template's bond-order, hydrogen and "
            "charge changes - one z3 query per clause and path over all substrate labels and template product sides.",
            "Bounds: centre templates of balanced reactions on 2 (thorough 3) atoms, substrates <=3 (4) atoms, forward and "
            "invert, strategies all/comp/bt, implicit-hydrogen mode; NoCanon passed via canonicaliser=; template left "
            "labels are realised by the pruning code. SMARTS output (RDKit) is outside."),
    "C04": ("Bounded symbolic model checking: every balanced reaction within the bounds, its centre and full-ITS template "
            "under a solver-chosen renumbering, applied forwards to the reactants and backwards (invert) to the products "
            "by the real SynReactor; the formula 'some result is isomorphic to the reaction' must be implied by the path "
            "condition.",
            "Bounds: n=2 full domains, n=3 reduced (thorough: charges, n=4); strategy all always, comp/bt where the "
            "documented component semantics admit the identity placement; centre template assumes every atom with a "
            "hydrogen/charge change is incident to a changed bond; SMILES-level rewriting (RDKit) outside."),
    "C05": ("Bounded symbolic model checking of SynReactor on pairs (template, substrate): result sets compared up to ITS "
            "isomorphism between the original call and (i) a repeated call, (ii) every renumbering of the template, (iii) a "
            "renumbered/re-ordered substrate; comp subset of all; bt = comp if non-empty else all; pruned results = gluing "
            "every raw match (the C11 pruning clause).",
            "Bounds: k=2 templates on substrates <=3 atoms, k=3 carbon-only templates (quick) / full (thorough); two-stage "
            "query: identical-reaction formula first, full isomorphism formula only if that can fail; SMILES rewriting is "
            "represented by node renumbering and insertion order."),
    "C06": ("Bounded symbolic model checking of SubgraphSearchEngine.find_subgraph_mappings on the real VF2-based code: "
            "host and pattern on concrete shapes with symbolic element/charge/hcount/order; for every injection the "
            "validity formula must coincide with membership in the returned list (strategies all/comp/bt, strict "
            "flag, max_results, threshold, pre_filter; inputs unchanged).",
            "Bounds: hosts <=4 nodes (thorough 5 nodes <=5 bonds), patterns <=3 nodes, element {C,N}, hcount {0,1}(2), "
            "order {1,2}, charge {0,1}; node_attrs=[element,charge], edge_attrs=[order]."),
    "C07": ("Bounded symbolic model checking of GraphMatcherEngine.isomorphic/get_mappings, SubgraphMatch.subgraph_isomorphism/"
            "is_subgraph and graph_morphism.graph_isomorphism/subgraph_isomorphism on the real VF2-based code: verdicts "
            "against bijection / induced / monomorphism formulas over all label values, invariance under relabelling, "
            "symmetry, filter on/off agreement, and independence from earlier queries by engines with other attribute "
            "selections on the same graph objects.",
            "Bounds: all shape pairs <=3 nodes, equal-size 4-node pairs (<=3 bonds quick, <=4 thorough) with reduced "
            "label domains; element {C,N}, charge {0,1}, hcount {0,1}, order {1,2}; WL-filter paths realise the hashed "
            "labels (solver-driven enumeration there)."),
    "C08": ("Bounded symbolic model checking of GraphCanonicaliser (generic/wl/morgan/nauty, both module copies), "
            "CanonicalGraph and SynGraph on the real code: faithfulness (bijection onto 1..N carrying all attributes), "
            "determinism, soundness (equal signatures imply isomorphic) on all graph pairs, and for the exact back-end "
            "invariance of canonical graph and signature under every relabelling / insertion order / edge orientation.",
            "Bounds: graphs <=3 nodes with all relabelings, 4-node graphs (<=4 bonds) under all bijections, C4 and K4-e; "
            "labels are formatted into strings by the code, so each path is one realised labelled graph and relabelling "
            "(solver-driven exhaustion); SHA-256 truncation collisions ignored."),
    "C09": ("Bounded symbolic model checking of the graph core of CanonRSMI.canonicalise (canonical reactant graph, map "
            "pairing, product remapping, map synchronisation; back-ends wl and nauty) and of AAMValidator.smiles_check / "
            "check_equivariant_graph on the real code with the RDKit boundary stubbed: output ITS isomorphic to input ITS, "
            "fixed point, numbering independence for distinguishable atoms; every renumbering accepted, a transposition of "
            "two product-side atom maps accepted iff the centres (RC) / ITS graphs are isomorphic (labels symbolic).",
            "Bounds: reactions on n<=3 atoms (thorough 4). Standardize.fit, BalanceReactionCheck, fix_aam, expand_aam and "
            "all SMILES parsing/writing are RDKit wrappers and are outside this family; those clauses are not claimed."),
    "C10": ("Bounded symbolic model checking of the graph-level representation changes on the real code: h_to_explicit / "
            "h_to_implicit / implicit_hydrogen (restoration, hydrogen totals, inputs untouched) with symbolic hydrogen "
            "counts, and ITS -> GML text -> ITS for centre and full rules (core/reindex on/off) plus the smart_to_gml route "
            "with the RDKit parser stubbed, compared on element, charges and (before, after) orders.",
            "Bounds: molecules <=3 heavy atoms (thorough 4), hcount 0..2; reactions on 2-3 atoms with orders up to "
            "{0,1,1.5,2,3} and charges -2..2; GML labels are formatted text so those paths are realised (solver-driven "
            "exhaustion). SMILES<->graph clauses need RDKit and are outside."),
    "C11": ("Bounded symbolic model checking of Automorphism (count and orbits against the z3 formula over all "
            "component-wise permutations, labels symbolic), AutoEst (never separates a true orbit) and "
            "deduplicate_matches_with_anchor (order-preserving sub-list, idempotent) on the real code; plus the pruning "
            "clause: SynReactor's pruned result set equals gluing every raw match, up to ITS isomorphism.",
            "Bounds: all graphs <=4 nodes (thorough: 5 nodes <=5 bonds, C6, K2,3); element {C,N}, charge {0,1}, order "
            "{1,2}; pruning clause: k<=3 templates on substrates <=3 atoms and the [2+2] family (harness shared with C05)."),
    "C12": ("Bounded symbolic model checking of both MCSMatcher copies on the real code: every returned mapping is a common "
            "induced subgraph (formula over symbolic elements/orders), maximum mode returns equal sizes and the formula "
            "'a larger common induced subgraph exists' is unsatisfiable on every path, directions are mutually inverse.",
            "Bounds: all pairs <=3x3 nodes plus 4x3/3x4 (<=3 bonds), thorough 4x4; element {C,N}, order {1,2}; bond "
            "orders are realised by float() in the edge matcher."),
    "C13": ("Bounded symbolic model checking of GraphCluster.fit/iterative_cluster and BatchCluster.fit/cluster/lib_check "
            "on the real code: class(i)=class(j) iff the isomorphism formula holds, for every list order (solver-chosen "
            "permutation), every batch size and one-shot, and incremental classification in arrival order.",
            "Bounds: lists of 2-3 (thorough 4) graphs over shapes {K1,K2,2K1,P3,K3,K2+K1}, element {C,N}, charge {0,1}, "
            "order {1,2}; attribute None or node count."),
    "C14": ("Bounded symbolic model checking of the result cache (_RuleApplier.__call__, real code) driven as BatchReactor "
            "drives it, with the addresses returned by id() and the substrate contents as solver variables under "
            "CPython's id() contract (liveness observed through weak references), cache sizes forcing eviction; plus "
            "BatchReactor.fit (serial, real RDKit) on every order of a batch with look-alike substrates, cache "
            "on/off/tiny, dedupe on/off, against single-entry runs; and the same with solver-chosen entry_n_jobs / "
            "rule_n_jobs / parallel_rules / allow_nested over an in-order stand-in for joblib.Parallel (task cutting and "
            "merging are the real code).",
            "Bounds: <=3 (4) entries x <=2 (3) rules; _execute replaced by an uninterpreted tag in a subclass; job counts "
            "1..3 x 1..4 on 2 (3) entries x 3 rules; real process pools, pickled reactor copies and parallel validators "
            "are outside this family (OS level); batched clustering is "
            "decided under C13."),
    "C15": ("Bounded symbolic model checking of the real CRNHyperGraph: every operation code and operand of a history of "
            "<=3 (quick) / <=4 (thorough) edits is a solver variable, every feasible path is explored, and the "
            "representation invariant, frame conditions and copy/merge isolation are checked after every step against "
            "a reference model.",
            "Bounds: 3 species, 2 rules, ids {generated,r_1,r_2,q_1,x}, 9 stoichiometries; labels/ids/coefficients are "
            "realised (hashed/cast) so the solver enumerates the finite history space; longer histories are outside."),
    "C16": ("Bounded symbolic model checking of the three view round trips on the real conversion code: hypergraph -> bipartite "
            "(string and integer ids, edge ids, mol labels) -> hypergraph; hypergraph -> reaction strings -> parser; "
            "hypergraph -> species graph -> hypergraph (reactions with both sides), each compared for exact equality of "
            "ids, rules, coefficients and labels.",
            "Bounds: <=3 species x <=3 reactions, coefficient sets incl. multi-digit values, catalysts, duplicates, "
            "source/sink; names {A,B,C1,Fe}; all values are realised (hashed/cast/formatted): solver-driven exhaustion."),
    "C18": ("Bounded symbolic model checking of CRNCanonicalizer and CRNAutomorphism on the real code for every network in the "
            "bounds against its image under a solver-chosen species renaming, reversed reaction order and regenerated "
            "ids: canonical graph isomorphic to the view, identical canonical graphs for renamed copies (also under an "
            "adversarial id() stub), different ones for non-isomorphic views, automorphism counts and orbits against "
            "brute-force self-maps.",
            "Bounds: <=3 species x <=2 reactions (coefficients <=2), 2 species x 3 reactions, ring of 3; bipartite view "
            "with/without stoichiometry and species view; all values realised (solver-driven exhaustion); id() in "
            "CRN.Topo.canon is stubbed (constant / fresh) where the code still calls it."),
    "C19": ("Bounded symbolic model checking of DeficiencyAnalyzer on the real conversion + complex-graph code: all networks "
            "within the bounds are enumerated by the solver; complexes, linkage classes, weak reversibility, rank, "
            "deficiency and linkage deficiencies are compared with exact (rational) definitions.",
            "Bounds: <=3 species, <=3 reactions, coefficients <=2 (see evidence); numpy matrix_rank runs for real on each "
            "realised matrix and is compared with the exact rank; coefficients are realised by int()."),
    "C20": ("Bounded symbolic model checking: siphon/trap search runs on a bipartite graph whose arc weights are unbounded "
            "symbolic integers (one path per presence pattern, oracle = definition formula over all subsets); PetriNet "
            "enabled/fire run on fully symbolic markings and weights; realizability verdicts and certificates are "
            "checked against exhaustive orderings for all nets and flows in the bounds; the enumeration / max_size cut-off / "
            "minimality filter of find_siphons and find_traps additionally runs on an arbitrary union-closed symbolic "
            "predicate over subsets (stub of the per-subset predicate), which stands for nets with any number of reactions.",
            "Bounds: <=4 species x <=3 reactions for siphon/trap predicates, 4 (thorough 5, cut by the wall budget) species "
            "for the enumeration on a stubbed predicate, 3 places for firing, <=3 species x <=3 reactions, "
            "total flow <=5 for realizability; numpy-based persistence condition is outside."),
}

NOT_APPLICABLE = {
    "C17": "every deciding step (rank, null spaces, LP feasibility) runs inside LAPACK/HiGHS on floats; nothing symbolic "
           "survives the first float()/array store, so solver-based checking of the real code cannot decide it "
           "(DESIGN.md §6)",
}


# bounds added after the first version of each check (the full, current list is in harness/cNN.py: META and in each evidence file)
EXTENDED = {
    "C01": "Also: sparse, non-contiguous and multi-digit atom numbers.",
    "C03": "Also: explicit-hydrogen mode on seven concrete families and on symbolic reactions with <=2 heavy atoms and <=3 explicit hydrogens (incl. H-H, free protons/hydrides, full-ITS templates, a duplicated one-atom molecule); templates with one wildcard atom on substrates whose ids may have gaps. partial=True is outside.",
    "C04": "Also: symmetric-centre families ([2+2], allylic shift, Diels-Alder); explicit-hydrogen branch: concrete families (incl. reductive amination backwards, N-N coupling under template renumbering) and symbolic reactions with <=2 (3) heavy atoms and <=3 explicit hydrogens incl. free protons/hydrides; 'among the results' = mapped ITS isomorphic or, failing that, same unmapped sides. partial=True is outside.",
    "C05": "Also: [2+2] with neighbouring substituents backwards (cycloreversion), rule-object re-use.",
    "C06": "Also: charges {-2,-1} (labels with colliding hashes), two-host histories.",
    "C07": "Also: five-atom hosts against 3/4-atom patterns and the two equal-degree-sequence five-atom pairs for the filters; graph_morphism.find_graph_isomorphism with the invariant pre-check on/off; charges {-2,-1}.",
    "C08": "Also: rule-like graphs with pair-valued orders, the six-atom bicyclopropyl dimer under every numbering, charges {-2,-1}, in-place edits with a re-used canonicaliser.",
    "C09": "Also: the canonical string is observed through an opaque serialiser stub; same-instance calls.",
    "C11": "Also: charges {-2,-1} on 2-3 atoms; de-duplication incl. the host_anchor argument; [2+2] families forwards/backwards.",
    "C13": "Also: charges {-2,-1}, P4 / C5 lists with a fixed number of double bonds, classifier re-use.",
    "C14": "Also: batched clustering (harness shared with C13) on five lists incl. a 4-item same-attribute list and a solver-chosen, possibly empty attribute; a repeated batch entry on which two rules fire.",
    "C15": "Also: the merged-in network carries two reactions of one rule; a chain of 8-11 merged reactions.",
    "C16": "Also: include_isolated_species on/off with integer and string ids.",
    "C18": "Also: three concrete symmetric networks (2x2 conversions, 2-ring + 3-ring, two reversible pairs joined) under every renaming (thorough: every reaction order).",
    "C20": "Also: max_size, PetriAnalyzer wrapper, re-used PathwayRealizability object, unimolecular 3x3 (thorough 4x3) nets.",
}


def main():
    def chk(pid, text, note):
        return dict(property_id=pid, quick_cmd="./check %s --tier quick" % pid,
                    thorough_cmd="./check %s --tier thorough" % pid, evidence_file="evidence/%s.json" % pid,
                    replay_cmd_template="./check --replay {path}", engine="symx",
                    level_claimed=dict(category="model_checking", text=text, design_ref="DESIGN.md §5 " + pid),
                    level_note=note + (" " + EXTENDED[pid] if pid in EXTENDED else ""), technique=TECH)

    na = [dict(property_id=k, reason=v) for k, v in NOT_APPLICABLE.items()]
    for i in range(1, 21):
        pid = "C%02d" % i
        if pid not in CLAIMED and pid not in NOT_APPLICABLE:
            na.append(dict(property_id=pid, reason="check not built yet (planned, see DESIGN.md §5); not claimed"))
    m = dict(
        version=1, setup_cmd="./bootstrap.sh",
        hooks=dict(guard="SYNKIT_VERIF",
                   enable="no source hooks: stubs are injected at run time by the harnesses (checks export SYNKIT_VERIF=1 "
                          "for uniformity)",
                   baseline_off_cmd="cd /repo && /venv/bin/python -m pytest -ra -q -p no:cacheprovider --timeout=900 "
                                    "--continue-on-collection-errors",
                   source_commits=[], add_only=True),
        engines=[dict(name="symx", path="symx/", serves_properties=sorted(CLAIMED),
                      kind_free_text="dynamic symbolic execution of the real SynKit Python code over z3 (proxy values, "
                                     "depth-first replay of decision prefixes, concrete replay of every counterexample)")],
        checks=[chk(p, *CLAIMED[p]) for p in sorted(CLAIMED)],
        not_applicable=sorted(na, key=lambda d: d["property_id"]),
        notes="Exit codes: 0 held on everything explored, 1 replayed violation (VIOLATION line), 2 harness/engine error "
              "(nothing claimed).  known_findings.json lists fixed and known findings.",
    )
    json.dump(m, open(os.path.join(ROOT, "MANIFEST.json"), "w"), indent=1)


if __name__ == "__main__":
    main()
