"""vf/seedall.py [ids...] [--tier quick|thorough] [--prop Cxx=Cyy,...]: apply every seeded change to /repo (or the scratch worktree named by VERIF_REPO) in turn, run the
check of its property, revert, and record in seeded/<id>/meta.json whether the check went red."""
import json, os, subprocess, sys, glob, re

REPO = os.environ.get("VERIF_REPO", "/repo")  # a scratch worktree of /repo at the same commit during development

args = [a for a in sys.argv[1:] if not a.startswith("--")]
tier = "quick"
override = {}
for a in sys.argv[1:]:
    if a.startswith("--tier="):
        tier = a.split("=")[1]
    if a.startswith("--prop="):
        for kv in a.split("=", 1)[1].split(","):
            k, v = kv.split(":")
            override[k] = v
ids = args or sorted(os.path.basename(d) for d in glob.glob("/verif/seeded/*") if os.path.isdir(d))
if subprocess.run(["git", "-C", REPO, "diff", "--quiet"]).returncode:
    sys.exit(REPO + " is not clean")
for sid in ids:
    d = os.path.join("/verif/seeded", sid)
    meta = json.load(open(os.path.join(d, "meta.json")))
    prop = override.get(sid, meta["property"])
    if subprocess.run(["git", "-C", REPO, "apply", os.path.join(d, "patch.diff")]).returncode:
        print(sid, "patch does not apply")
        continue
    try:
        p = subprocess.run(["./check", prop, "--tier", tier, "--no-evidence"], cwd="/verif", capture_output=True, text=True, env=dict(os.environ, VERIF_REPO=REPO))
    finally:
        subprocess.run(["git", "-C", REPO, "checkout", "--", "."])
    clauses = sorted(set(re.findall(r"clause=(\S+)", p.stdout)))
    caught = p.returncode == 1 and "VIOLATION property=%s" % prop in p.stdout
    det = meta.get("detection") or {}
    det["%s/%s" % (prop, tier)] = dict(caught=caught, exit=p.returncode, clauses=clauses[:6])
    meta["detection"] = det
    json.dump(meta, open(os.path.join(d, "meta.json"), "w"), indent=1)
    print(sid, prop, tier, "CAUGHT" if caught else "missed (exit %d)" % p.returncode, clauses[:4], flush=True)
