"""CrossHair corroboration of leaf kernels (independent symbolic-execution engine).  Never decides a property: results are
recorded in the evidence of the thorough tier; 'Not confirmed' / errors are reported as inconclusive."""
import os
import re
import subprocess
import sys

ROOT = os.path.dirname(os.path.dirname(os.path.abspath(__file__)))
KERNELS = {"C20": ["_fire_is_marking_minus_pre_plus_post"], "C10": ["_charge_label_round_trip"],
           "C02": ["_edge_in_centre_iff_order_changes"]}


def run(pid, timeout=40):
    names = KERNELS.get(pid)
    if not names:
        return None
    path = os.path.join(ROOT, "xh", "kernels.py")
    src = open(path).read().splitlines()
    starts = {i + 1: m.group(1) for i, l in enumerate(src) for m in [re.match(r"def (\w+)\(", l)] if m}
    env = dict(os.environ, PYTHONPATH=os.environ.get("VERIF_REPO", "/repo") + ":" + ROOT)
    out = {}
    try:
        p = subprocess.run([sys.executable, "-m", "crosshair", "check", "--report_all", "--per_condition_timeout", str(timeout), path],
                           capture_output=True, text=True, timeout=timeout * 6, env=env, cwd=ROOT)
        text = p.stdout + p.stderr
    except Exception as e:
        return {n: "inconclusive (%s)" % type(e).__name__ for n in names}
    for line in text.splitlines():
        m = re.match(r".*kernels\.py:(\d+): (\w+): (.*)", line)
        if not m:
            continue
        ln = int(m.group(1))
        fn = None
        for s in sorted(starts):
            if s <= ln:
                fn = starts[s]
        if fn in names:
            msg = m.group(3)
            out[fn] = "confirmed over all paths" if msg.startswith("Confirmed over all paths") else "inconclusive: " + msg[:120]
    for n in names:
        out.setdefault(n, "inconclusive: no report")
    return out
