#!/bin/bash
# usage: vf/seedrun.sh <patch.diff> <property> [tier]   -- applies a seeded change to the repository (/repo, or the scratch
# worktree named by VERIF_REPO during development), runs the check, reverts.
P=$1; ID=$2; TIER=${3:-quick}; R=${VERIF_REPO:-/repo}
git -C $R diff --quiet || { echo "$R not clean"; exit 3; }
git -C $R apply "$P" || exit 3
cd /verif && VERIF_REPO=$R ./check $ID --tier $TIER --no-evidence 2>&1 | grep -E "^VIOLATION|^KNOWN|clause=|tier=|HARNESS" | cut -c1-260 | head -8
git -C $R checkout -- .
