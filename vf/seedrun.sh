#!/bin/bash
# usage: vf/seedrun.sh <patch.diff> <property> [tier]   -- applies a seeded change to /repo, runs the check, reverts.
P=$1; ID=$2; TIER=${3:-quick}
cd /repo && git diff --quiet || { echo "/repo not clean"; exit 3; }
git -C /repo apply "$P" || exit 3
cd /verif && ./check $ID --tier $TIER --no-evidence 2>&1 | grep -E "^VIOLATION|^KNOWN|clause=|tier=|HARNESS" | cut -c1-260 | head -8
git -C /repo checkout -- . 
