#!/bin/bash
# Reverts each "fix:" commit of the repository in turn (working tree only) and expects the named check to go red (exit 1).
# usage: vf/selftest_fixes.sh [tier]
TIER=${1:-quick}
R=${VERIF_REPO:-/repo}   # a scratch worktree of /repo at the same commit may be named instead
cd $R && git diff --quiet || { echo "$R not clean"; exit 3; }
MAP=$(mktemp /var/tmp/verif-fixmap.XXXXXX)
python3 - <<'P' > $MAP
import json
seen=set()
for f in json.load(open('/verif/known_findings.json'))['findings']:
    if f['status']=='fixed' and (f['commit'],f['property']) not in seen:
        seen.add((f['commit'],f['property'])); print(f['commit'], f['property'])
P
fail=0
while read c p; do
  if ! git -C $R revert -n $c >/dev/null 2>&1; then
    # a later commit touched the same lines: revert the later commits on the same files first (newest first), then this one
    git -C $R revert --abort 2>/dev/null; git -C $R reset -q --hard HEAD
    later=$(git -C $R log --format=%h $c..HEAD -- $(git -C $R show --name-only --format= $c))
    if ! git -C $R revert -n $later $c >/dev/null 2>&1; then echo "$c $p: revert does not apply cleanly (skipped)"; git -C $R revert --abort 2>/dev/null; git -C $R reset -q --hard HEAD; continue; fi
    echo "$c $p: reverted together with later commits on the same files: $later"
  fi
  out=$(cd /verif && VERIF_REPO=$R ./check $p --tier $TIER --no-evidence 2>&1); rc=$?
  git -C $R revert --abort 2>/dev/null; git -C $R reset -q --hard HEAD
  if [ $rc -eq 1 ] && echo "$out" | grep -q "^VIOLATION property=$p"; then echo "$c $p: RED as expected ($(echo "$out" | grep -c '^VIOLATION') violations)"; else echo "$c $p: NOT detected (exit $rc)"; fail=1; fi
done < $MAP
rm -f $MAP
exit $fail
