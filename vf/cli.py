"""./check <property> --tier quick|thorough   |   ./check --replay <file>"""
from __future__ import annotations

import argparse
import json
import os
import sys
import time

from . import runner

ROOT = runner.ROOT


def load_findings():
    p = os.path.join(ROOT, "known_findings.json")
    if not os.path.exists(p):
        return []
    return json.load(open(p))["findings"]


def main(argv=None):
    ap = argparse.ArgumentParser()
    ap.add_argument("property", nargs="?")
    ap.add_argument("--tier", default=os.environ.get("VERIF_TIER", "quick"), choices=["quick", "thorough"])
    ap.add_argument("--replay")
    ap.add_argument("--wall", type=float)
    ap.add_argument("--no-evidence", action="store_true")
    a = ap.parse_args(argv)
    if a.replay:
        ok, text = runner.replay_file(a.replay)
        body = json.load(open(a.replay))
        print(text)
        if ok:
            print("VIOLATION property=%s replay=%s" % (body["property"], a.replay))
            return 1
        print("NOT-REPRODUCED property=%s replay=%s" % (body["property"], a.replay))
        return 0
    pid = a.property.upper()
    seed = int(os.environ.get("VERIF_SEED", "0"))
    res, mod = runner.run_property(pid, a.tier, seed, wall_budget=a.wall)
    return finish(res, mod, a)


def finish(res, mod, a):
    pid, tier = res["pid"], res["tier"]
    known = [f for f in load_findings() if f["property"] == pid and f.get("status") == "known"]
    rc = 0
    lines = []
    confirmed, unreproduced, known_hits = [], [], {}
    seen = set()
    # exceptions raised by the code under test are candidate violations of "returns ... for every input"
    cands = list(res["violations"])
    for e in res["errors"]:
        if e.get("inputs") is not None:
            cands.append(dict(h=e["h"], params=e["params"], clause="exception", inputs=e["inputs"], detail=e["err"]))
    # replay at most two candidates per (harness, clause), at most 24 in all
    per = {}
    chosen = []
    for v in cands:
        k = (v["h"], v["clause"])
        per[k] = per.get(k, 0) + 1
        if per[k] <= 2 and len(chosen) < 24:
            chosen.append(v)
    if cands:
        print("candidates by clause: " + "; ".join("%s/%s x%d" % (k[0], k[1], n) for k, n in sorted(per.items())))
    for v in chosen:
        key = json.dumps([v["h"], v["params"], v["clause"], v["inputs"]], sort_keys=True, default=str)
        if key in seen:
            continue
        seen.add(key)
        path = runner.write_replay(pid, v)
        ok, text = runner.replay_subprocess(path)
        if not ok:
            unreproduced.append((path, text[-600:] + ("\n  original: " + str(v.get("detail"))[-1500:] if v["clause"] == "exception" else "")))
            continue
        kf = None
        for f in known:
            if f.get("harness") == v["h"] and f.get("clause") == v["clause"] and hasattr(mod, "MATCH_KNOWN"):
                if mod.MATCH_KNOWN(f, v):
                    kf = f
                    break
        if kf:
            known_hits[kf["id"]] = kf
        else:
            confirmed.append((path, v))
    for f in known_hits.values():
        print("KNOWN-FINDING: property=%s %s" % (pid, f["text"]))
    for path, v in confirmed:
        print("VIOLATION property=%s replay=%s" % (pid, os.path.relpath(path, ROOT)))
        print("  harness=%s clause=%s params=%s inputs=%s" % (v["h"], v["clause"], json.dumps(v["params"]), json.dumps(v["inputs"], default=str)))
        rc = 1
    harness_err = []
    if unreproduced:
        harness_err.append("%d counterexample(s) did not reproduce on the real code (encoding error): %s" % (len(unreproduced), unreproduced[0]))
    for e in res["errors"]:
        if e.get("inputs") is None:
            harness_err.append("exception without model: " + e["err"][-800:])
    for d in res["diverged"]:
        harness_err.append("non-deterministic harness %s: %s" % (d["h"], d["err"]))
    for s in res["shadow_bad"]:
        harness_err.append("shadow replay mismatch in %s %s: %s" % (s["h"], json.dumps(s["inputs"], default=str), s["why"][:1500]))
    if res["fatal"]:
        harness_err.append(res["fatal"])
    for d in res.get("xs_disagree", [])[:3]:
        harness_err.append("second solver disagrees on a final query: %s" % json.dumps(d))
    if res["agg"]["reached"] == 0 and not cands:
        harness_err.append("vacuous: no path reached a final query")
    minp = getattr(mod, "MIN_PATHS", {}).get(tier, 1)
    if res["agg"]["paths"] < minp and not cands:
        harness_err.append("only %d paths explored (< %d)" % (res["agg"]["paths"], minp))
    exhaustive = all(s["exhausted"] for s in res["shards"])
    st = res["stats"]
    print("%s tier=%s shards=%d paths=%d reached=%d nontrivial=%d decisions=%d forks=%d realisations=%d queries=%d solver_s=%.1f "
          "inconclusive=%d infeasible=%d shadow_ok=%d exhaustive=%s wall=%.1fs" % (
              pid, tier, len(res["shards"]), res["agg"]["paths"], res["agg"]["reached"], res["agg"]["nontrivial"],
              st.get("decisions", 0), st.get("forks", 0), st.get("realize", 0), st.get("queries", 0), st.get("solver_s", 0),
              st.get("inconclusive", 0), st.get("infeasible", 0), res["agg"]["shadow_ok"], exhaustive, res["wall"]))
    for s in res["shards"]:
        if not s["exhausted"]:
            print("  shard %s %s: not exhausted (%s) after %d paths" % (s["h"], json.dumps(s["params"]), s["stopped"], s["paths"]))
    if harness_err and rc == 0:
        for h in harness_err:
            print("HARNESS-ERROR: " + h)
        rc = 2
    if not a.no_evidence:
        write_evidence(res, mod, exhaustive, len(confirmed), [f["id"] for f in known_hits.values()], harness_err)
    return rc


def write_evidence(res, mod, exhaustive, nviol, known_ids, harness_err):
    pid, tier = res["pid"], res["tier"]
    st = res["stats"]
    meta = getattr(mod, "META", {})
    cov = dict(
        states=int(res["agg"]["paths"]),
        transitions=int(st.get("decisions", 0) + st.get("realize", 0)),
        traces_validated_against_impl=int(res["agg"]["shadow_ok"]),
        samples=res["samples"][:4] or [dict(note="no completed path")],
        evaluations=int(res["agg"]["paths"]),
        distinct_nontrivial=int(res["agg"]["nontrivial"]),
        rule=meta.get("rule", "one evaluation = one symbolic path of the real code (a distinct decision prefix, hence a "
                      "disjoint region of the input space); non-trivial = the harness marked the path as exercising the "
                      "property (see harness)"),
        exhaustive=bool(exhaustive),
        explanation="bounded symbolic execution of the real SynKit functions with z3 (symx); every feasible path inside "
                    "the bounds is visited when exhaustive is true; the negated property is one z3 query per path",
        functions_encoded=res["functions"],
        bounds=meta.get("bounds", {}).get(tier, meta.get("bounds")),
        outside_bounds=meta.get("outside", []),
        stubs=meta.get("stubs", []),
        shards=res["shards"],
        forks=int(st.get("forks", 0)),
        realisations=int(st.get("realize", 0)),
        queries=int(st.get("queries", 0)),
        final_queries=int(st.get("checks", 0)),
        solver_s=round(st.get("solver_s", 0.0), 2),
        infeasible_prefixes=int(st.get("infeasible", 0)),
        inconclusive=int(st.get("inconclusive", 0)),
        paths_reaching_final_query=int(res["agg"]["reached"]),
        max_decision_depth=int(res["agg"]["max_depth"]),
        second_solver=dict(solver="cvc5 binary (Debian 1.0.x) on z3's SMT-LIB2 dump of sampled final queries",
                           checked=int(st.get("xs_checked", 0)), agree=int(st.get("xs_agree", 0)),
                           no_answer=int(st.get("xs_unknown", 0)), disagree=len(res.get("xs_disagree", []))),
        known_findings=known_ids,
        harness_errors=harness_err,
        solver="z3 " + _z3v(),
    )
    if tier == "thorough":
        from . import xh

        x = xh.run(pid)
        if x is not None:
            cov["crosshair_corroboration"] = dict(note="leaf kernels re-checked by CrossHair 0.0.110 (xh/kernels.py); does not decide "
                                                       "the property", kernels=x)
    ev = dict(property_id=pid, tier=tier, seed=res["seed"], level="model_checking", coverage=cov,
              assumptions=meta.get("assumptions", []), wall_s=round(res["wall"], 2), violations=nviol)
    os.makedirs(os.path.join(ROOT, "evidence"), exist_ok=True)
    with open(os.path.join(ROOT, "evidence", pid + ".json"), "w") as f:
        json.dump(ev, f, indent=1, default=str)


def _z3v():
    import z3

    return z3.get_version_string()


if __name__ == "__main__":
    sys.exit(main())
