"""symx — a small dynamic symbolic executor for SynKit's pure-Python layers.

Symbolic values are proxy objects (proxies.py) that carry a z3 term.  The real code runs on them; every
data-dependent branch calls Engine.decide (z3 decides which outcomes are feasible, the other outcome is
queued as a decision prefix); every C-level consumer (hash, int(), str(), format) calls Engine.realize
(the value is chosen from the model, pinned in the path condition, the remaining values are queued).
Exploration is depth first by *replaying* the harness under a recorded decision prefix.

The same harness runs unchanged in concrete mode (ConcreteEnv): the factories return plain Python values,
`check` evaluates the violation formula as a plain bool.  Concrete mode is used for replaying counterexamples
and for shadow-validating symbolic paths against the real code.
"""
from __future__ import annotations

import time
from fractions import Fraction

import z3

from . import proxies as P
from . import isolate


class PathAbort(BaseException):
    """Current path is infeasible (assumption failed / value space exhausted)."""


class Diverged(BaseException):
    """Replay under a recorded prefix met a different decision kind: harness is not deterministic."""


class BudgetExceeded(BaseException):
    pass


class AssumeFailed(BaseException):
    """Concrete mode: the concrete input violates a harness assumption."""


def pyval(v):
    """z3 numeral -> python value."""
    if z3.is_int_value(v):
        return v.as_long()
    if z3.is_rational_value(v):
        fr = Fraction(v.numerator_as_long(), v.denominator_as_long())
        return float(fr) if fr.denominator in (1, 2, 4, 5, 8, 10) else fr
    if z3.is_true(v):
        return True
    if z3.is_false(v):
        return False
    if z3.is_algebraic_value(v):
        return float(v.approx(20).as_fraction())
    raise TypeError("cannot convert %r" % (v,))


class Violation:
    def __init__(self, clause, inputs, detail=None):
        self.clause = clause
        self.inputs = inputs
        self.detail = detail


class Engine:
    concrete = False

    def __init__(self, qtimeout_ms=10000, alphabet=()):
        self.ctx = z3.main_ctx()
        self.solver = z3.Solver()
        self.solver.set("timeout", qtimeout_ms)
        self.alphabet = sorted(alphabet)
        self.aidx = {s: i for i, s in enumerate(self.alphabet)}
        # statistics (whole exploration)
        self.n_paths = 0
        self.n_decisions = 0
        self.n_forks = 0
        self.n_realize = 0
        self.n_queries = 0
        self.solver_s = 0.0
        self.n_infeasible = 0
        self.n_inconclusive = 0
        self.n_checks = 0
        self.n_checks_reached = 0
        self.n_errors = 0
        self.xs_every = 0  # cross-check every n-th final query with the cvc5 binary (0 = off)
        self.xs_checked = self.xs_agree = self.xs_unknown = 0
        self.xs_disagree = []
        self.frontier = []
        self.deadline = None
        self._decl = {}  # (name, domain) -> (term, constraint, proxy): z3 terms are reused across paths
        self._reset_path(())

    # ------------------------------------------------------------------ path state
    def _reset_path(self, prefix):
        self.prefix = prefix
        self.pos = 0
        self.trace = []
        self.model = None
        self.inputs = {}  # name -> (term, kind)
        self.assumptions = []
        self.notes = {}
        self.violations = []
        self.observed = None
        self.realized = {}  # z3 ast id -> python value
        self._keep = []  # keeps decided/realised terms alive so that ast ids stay unique on the path
        self.decided = {}  # z3 ast id -> bool (conditions already decided on this path)
        self.path_checks = 0

    def _check(self, *extra):
        t0 = time.perf_counter()
        r = self.solver.check(*extra)
        self.solver_s += time.perf_counter() - t0
        self.n_queries += 1
        return r

    def get_model(self):
        if self.model is None:
            r = self._check()
            if r == z3.unsat:
                raise PathAbort("infeasible")
            if r == z3.unknown:
                self.n_inconclusive += 1
                raise PathAbort("unknown")
            self.model = self.solver.model()
        return self.model

    def _add(self, c, keeps_model=False):
        self.solver.add(c)
        if not keeps_model:
            self.model = None

    # ------------------------------------------------------------------ decisions
    def decide(self, cond) -> bool:
        """Fork point: cond is a z3 Bool."""
        if self.deadline is not None and time.monotonic() > self.deadline:
            raise BudgetExceeded()
        cid = cond.get_id()
        hit = self.decided.get(cid)
        if hit is not None:
            return hit
        i = self.pos
        self.pos += 1
        self.n_decisions += 1
        if i < len(self.prefix):
            d = self.prefix[i]
            if d[0] == "f":
                self.trace.append(d)
                self.decided[cid] = d[1]; self._keep.append(cond)
                return d[1]
            if d[0] != "b":
                raise Diverged("decision %d: expected %s, met branch" % (i, d[0]))
            self._add(cond if d[1] else z3.Not(cond))
            self.trace.append(d)
            self.decided[cid] = d[1]; self._keep.append(cond)
            return d[1]
        m = self.get_model()
        v = m.eval(cond, model_completion=True)
        if z3.is_true(v):
            b = True
        elif z3.is_false(v):
            b = False
        else:  # should not happen for quantifier-free terms over declared inputs
            r = self._check(cond)
            b = r == z3.sat
        other = z3.Not(cond) if b else cond
        r = self._check(other)
        self.decided[cid] = b
        self._keep.append(cond)
        if r == z3.unsat:
            self.trace.append(("f", b))
            return b
        if r == z3.unknown:
            self.n_inconclusive += 1
        self.n_forks += 1
        self.frontier.append(tuple(self.trace) + (("b", not b),))
        self._add(cond if b else z3.Not(cond), keeps_model=True)
        self.trace.append(("b", b))
        return b

    def realize(self, term):
        """Pin a symbolic term to a concrete value (C boundary)."""
        if self.deadline is not None and time.monotonic() > self.deadline:
            raise BudgetExceeded()
        key = term.get_id()
        if key in self.realized:
            return self.realized[key]
        if z3.is_int_value(term) or z3.is_rational_value(term) or z3.is_true(term) or z3.is_false(term):
            return pyval(term)
        self._keep.append(term)
        i = self.pos
        self.pos += 1
        self.n_realize += 1
        excl = []
        if i < len(self.prefix):
            d = self.prefix[i]
            if d[0] == "r":
                self._add(term == self._val(term, d[1]))
                self.trace.append(d)
                self.realized[key] = d[1]
                return d[1]
            if d[0] != "x":
                raise Diverged("decision %d: expected %s, met realize" % (i, d[0]))
            excl = list(d[1])
            for e in excl:
                self._add(term != self._val(term, e))
        m = self.get_model()
        v = pyval(m.eval(term, model_completion=True))
        ne = [term != self._val(term, v)]
        r = self._check(*ne)
        if r == z3.unsat:
            # forced under the exclusions met so far: replay must still pin it
            self._add(term == self._val(term, v), keeps_model=True)
            self.trace.append(("r", v))
        else:
            if r == z3.unknown:
                self.n_inconclusive += 1
            self.n_forks += 1
            self.frontier.append(tuple(self.trace) + (("x", tuple(excl) + (v,)),))
            self._add(term == self._val(term, v), keeps_model=True)
            self.trace.append(("r", v))
        self.realized[key] = v
        return v

    @staticmethod
    def _val(term, v):
        if z3.is_bool(term):
            return z3.BoolVal(bool(v))
        if z3.is_int(term):
            return z3.IntVal(int(v))
        return z3.RealVal(str(Fraction(v)))

    # ------------------------------------------------------------------ inputs
    def _declare(self, name, term, kind):
        if name in self.inputs:
            raise ValueError("duplicate input " + name)
        self.inputs[name] = (term, kind)

    def _cached(self, key, build):
        hit = self._decl.get(key)
        if hit is None:
            hit = self._decl[key] = build()
        term, cons, kind, proxy = hit
        self._declare(key[0], term, kind)
        if cons is not None:
            self._add(cons)
        return proxy

    def int(self, name, lo, hi):
        def build():
            t = z3.Int(name)
            return t, z3.And(t >= lo, t <= hi), "int", P.SymInt(t)

        return self._cached((name, "int", lo, hi), build)

    def bool(self, name):
        def build():
            t = z3.Bool(name)
            # mention it so that it is part of every model
            return t, z3.Or(t, z3.Not(t)), "bool", P.SymBool(t)

        return self._cached((name, "bool"), build)

    def choice(self, name, options):
        """A value from a finite list of python values: all str (-> SymStr), all int (-> SymInt) or numbers
        with halves (-> SymFloat)."""
        options = tuple(options)
        if all(isinstance(o, bool) for o in options):
            if len(set(options)) == 2:
                return self.bool(name)
            return options[0]

        def build():
            if all(isinstance(o, str) for o in options):
                t = z3.Int(name)
                return t, z3.Or([t == self.aidx[o] for o in options]), ("str", options), P.SymStr(t)
            if all(isinstance(o, int) and not isinstance(o, bool) for o in options):
                t = z3.Int(name)
                return t, z3.Or([t == o for o in options]), "int", P.SymInt(t)
            # floats: store twice the value as an integer variable
            t = z3.Int(name)
            dbl = []
            for o in options:
                d = Fraction(o) * 2
                if d.denominator != 1:
                    raise ValueError("only multiples of 1/2")
                dbl.append(int(d))
            return t, z3.Or([t == d for d in dbl]), "half", P.SymFloat(z3.ToReal(t) / 2)

        return self._cached((name, "choice", options), build)

    def perm(self, name, n):
        """A permutation of range(n) as a list of SymInt."""
        ps = [self.int("%s_%d" % (name, i), 0, n - 1) for i in range(n)]
        if n > 1:
            key = (name, "distinct", n)
            c = self._decl.get(key)
            if c is None:
                c = self._decl[key] = z3.Distinct(*[p.t for p in ps])
            self._add(c)
        return ps

    def assume(self, cond):
        c = P.term_bool(cond)
        if c is True:
            return
        if c is False:
            raise PathAbort("assume false")
        self._add(c)
        self.get_model()  # raises PathAbort when infeasible

    def note(self, **kw):
        self.notes.update(kw)

    # ------------------------------------------------------------------ verdicts
    def check(self, bad, clause, detail=None):
        """Is the violation formula satisfiable on this path?"""
        self.n_checks += 1
        self.path_checks += 1
        c = P.term_bool(bad)
        if c is False:
            return False
        if c is True:
            c = z3.BoolVal(True)
        r = self._check(c)
        if self.xs_every and r != z3.unknown and self.n_checks % self.xs_every == 0:
            self._cross_check(c, r, clause)
        if r == z3.unsat:
            return False
        if r == z3.unknown:
            self.n_inconclusive += 1
            return False
        m = self.solver.model()
        self.violations.append(Violation(clause, self.model_inputs(m), detail))
        return True

    def _cross_check(self, c, r, clause):
        """re-decide this final query (path condition + negated property) with the cvc5 binary"""
        import os
        import subprocess
        import tempfile

        self.solver.push()
        self.solver.add(c)
        text = "(set-logic ALL)\n" + self.solver.to_smt2()
        self.solver.pop()
        d = tempfile.mkdtemp(prefix="verif-xs-", dir="/var/tmp")
        f = os.path.join(d, "q.smt2")
        try:
            with open(f, "w") as fh:
                fh.write(text)
            p = subprocess.run(["cvc5", "--lang=smt2", "--tlimit=10000", f], capture_output=True, text=True, timeout=30)
            out = (p.stdout + p.stderr).strip()
        except Exception as e:  # timeout or missing binary
            out = "unknown (%s)" % type(e).__name__
        finally:
            try:
                os.remove(f)
                os.rmdir(d)
            except OSError:
                pass
        self.xs_checked += 1
        first = out.splitlines()[0].strip() if out else "unknown"
        if "(error" in out or first not in ("sat", "unsat"):
            self.xs_unknown += 1
        elif first == str(r):
            self.xs_agree += 1
        else:
            self.xs_disagree.append(dict(clause=clause, z3=str(r), cvc5=first))

    def feasible(self, cond):
        """Is cond satisfiable together with the path condition?  (no violation is recorded)"""
        c = P.term_bool(cond)
        if c is False:
            return False
        if c is True:
            return True
        r = self._check(c)
        if r == z3.unknown:
            self.n_inconclusive += 1
        return r != z3.unsat

    def model_inputs(self, m=None):
        m = m or self.get_model()
        out = {}
        for name, (t, kind) in self.inputs.items():
            v = pyval(m.eval(t, model_completion=True))
            if isinstance(kind, tuple) and kind[0] == "str":
                v = self.alphabet[v]
            elif kind == "half":
                v = v / 2
            out[name] = v
        return out

    def observe(self, obj):
        self.observed = obj

    def eval_observed(self, m):
        return P.concretize(self.observed, m, self)

    # ------------------------------------------------------------------ driver
    def run_path(self, fn, prefix, params):
        """Run one path. Returns status in {'ok','infeasible','error','budget'} and an info dict."""
        self._reset_path(tuple(prefix))
        self.solver.push()
        isolate.reset()
        P.CUR = self
        status, err = "ok", None
        try:
            fn(self, **params)
            if self.pos < len(self.prefix):
                raise Diverged("prefix longer than path (%d < %d)" % (self.pos, len(self.prefix)))
        except PathAbort:
            status = "infeasible"
            self.n_infeasible += 1
        except BudgetExceeded:
            status = "budget"
        except Diverged as e:
            status, err = "diverged", str(e)
        except Exception as e:  # real exception from code under test or harness
            import traceback

            status, err = "error", traceback.format_exc(limit=-6)
            self.n_errors += 1
            try:
                self.error_inputs = self.model_inputs()
            except BaseException:
                self.error_inputs = None
        finally:
            P.CUR = None
        if status == "ok":
            self.n_paths += 1
            if self.path_checks:
                self.n_checks_reached += 1
        return status, err

    def end_path(self):
        self.solver.pop()


class ConcreteEnv:
    """Same factory interface as Engine, plain python values."""

    concrete = True

    def __init__(self, values, alphabet=()):
        self.values = values
        self.alphabet = sorted(alphabet)
        self.results = []  # (clause, bool, detail)
        self.notes = {}
        self.observed = None
        self.used = set()
        self.defaulted = set()

    def _get(self, name, default=None):
        self.used.add(name)
        if name not in self.values:
            # the recorded assignment ends where the violated clause was checked: inputs declared later do not matter
            # for it, the first admissible value is taken
            self.defaulted.add(name)
            return default
        return self.values[name]

    def int(self, name, lo, hi):
        v = self._get(name, lo)
        if not (lo <= v <= hi):
            raise AssumeFailed(name)
        return int(v)

    def bool(self, name):
        return bool(self._get(name, False))

    def choice(self, name, options):
        options = list(options)
        if all(isinstance(o, bool) for o in options) and len(set(options)) < 2:
            return options[0]
        v = self._get(name, options[0])
        if v not in options:
            raise AssumeFailed(name)
        for o in options:
            if o == v:
                return o if not isinstance(o, float) else float(v)
        return v

    def perm(self, name, n):
        vs = [int(self._get("%s_%d" % (name, i), i)) for i in range(n)]
        if sorted(vs) != list(range(n)):
            raise AssumeFailed(name)
        return vs

    def assume(self, cond):
        c = P.term_bool(cond)
        if c is not True:
            if c is False:
                raise AssumeFailed("assume")
            raise TypeError("symbolic term in concrete mode")

    def note(self, **kw):
        self.notes.update(kw)

    def check(self, bad, clause, detail=None):
        c = P.term_bool(bad)
        if c not in (True, False):
            c = z3.is_true(z3.simplify(c))
        self.results.append((clause, bool(c), detail))
        return bool(c)

    def observe(self, obj):
        self.observed = obj

    def feasible(self, cond):
        c = P.term_bool(cond)
        if c not in (True, False):
            c = z3.is_true(z3.simplify(c))
        return bool(c)


def run_concrete(fn, params, values, alphabet=()):
    env = ConcreteEnv(values, alphabet)
    isolate.reset()
    P.CUR = None
    try:
        fn(env, **params)
        status = "ok"
        err = None
    except AssumeFailed as e:
        status, err = "assume", str(e)
    except Exception:
        import traceback

        status, err = "error", traceback.format_exc(limit=-6)
    return env, status, err
