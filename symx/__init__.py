from .engine import Engine, ConcreteEnv, run_concrete, PathAbort, AssumeFailed  # noqa
from .proxies import AND, OR, NOT, IMPLIES, IFF, EQ, NE, LE, LT, GE, ITE, SUM, COUNT, is_sym, term_bool  # noqa
