"""Per-path isolation of process-wide state of the code under test.

Every path of a harness is replayed from the start in the same worker process, and every counterexample is replayed in
a fresh interpreter.  Both are only meaningful if a path's outcome depends on the path alone, so mutable containers that
live at module or class level in `synkit.*` (result caches, memo tables, registries) are snapshotted once and restored
before each path.  A cache that a change introduces later is covered as long as it is a module/class attribute holding a
dict, list, set or WeakKeyDictionary."""
from __future__ import annotations

import sys
import weakref

_SNAP = None
_CONTAINERS = (dict, list, set, weakref.WeakKeyDictionary, weakref.WeakValueDictionary)
_SKIP_NAMES = {"__builtins__", "__dict__", "__annotations__", "__slots__", "__all__", "__path__", "__dataclass_fields__",
               "__dataclass_params__", "__match_args__", "__abstractmethods__", "__parameters__", "__weakref__"}


def _owners():
    for name, mod in list(sys.modules.items()):
        if not (name == "synkit" or name.startswith("synkit.")) or mod is None:
            continue
        yield mod
        for v in list(vars(mod).values()):
            if isinstance(v, type) and getattr(v, "__module__", "").startswith("synkit"):
                yield v


def _copy(v):
    if isinstance(v, (weakref.WeakKeyDictionary, weakref.WeakValueDictionary)):
        return dict(v.items())
    return type(v)(v) if not isinstance(v, dict) else dict(v)


def snapshot():
    global _SNAP
    snap = []
    seen = set()
    for owner in _owners():
        for k, v in list(vars(owner).items()):
            if k in _SKIP_NAMES or (k.startswith("__") and k.endswith("__")):
                continue
            if isinstance(v, _CONTAINERS) and id(v) not in seen:
                seen.add(id(v))
                try:
                    snap.append((v, _copy(v)))
                except Exception:
                    pass
    _SNAP = snap
    return len(snap)


def reset():
    """restore every snapshotted container to its content at snapshot time (in place)"""
    global _SNAP
    if _SNAP is None:
        snapshot()
        return
    for obj, saved in _SNAP:
        try:
            if isinstance(obj, list):
                if obj != saved:
                    obj[:] = saved
            elif isinstance(obj, set):
                if obj != saved:
                    obj.clear()
                    obj.update(saved)
            else:
                if len(obj) != len(saved) or any(k not in saved for k in list(obj.keys())):
                    obj.clear()
                    obj.update(saved)
        except Exception:
            pass
