"""Proxy values carrying z3 terms.  Not subclasses of int/str/float (CPython would read the machine value
directly); `__class__` is spoofed so isinstance() checks in the code under test pass."""
from __future__ import annotations

from fractions import Fraction

import z3

from z3 import z3core as _core

CUR = None  # the active Engine (set by Engine.run_path)
_CTX = z3.main_ctx().ref()


def _lb(t):
    """1 = literally true, -1 = literally false, 0 = neither (one C call instead of z3py's is_true/is_false)."""
    return _core.Z3_get_bool_value(_CTX, t.ast)


def _eng():
    if CUR is None:
        raise RuntimeError("symbolic value used outside an engine path")
    return CUR


class Sym:
    __slots__ = ("t",)

    def __deepcopy__(self, memo):
        return self

    def __copy__(self):
        return self

    def __reduce__(self):
        raise TypeError("symbolic value cannot be pickled")


def is_sym(x):
    return isinstance(type(x), type) and issubclass(type(x), Sym)


def _num_term(x):
    """python number / proxy -> (z3 term, is_real) or None"""
    tx = type(x)
    if tx is SymInt:
        return x.t, False
    if tx is SymFloat:
        return x.t, True
    if tx is SymBool:
        return z3.If(x.t, z3.IntVal(1), z3.IntVal(0)), False
    if tx is bool:
        return z3.IntVal(int(x)), False
    if tx is int:
        return z3.IntVal(x), False
    if tx is float:
        if x != x or x in (float("inf"), float("-inf")):
            return None
        return z3.RealVal(str(Fraction(x))), True
    if tx is Fraction:
        return z3.RealVal(str(x)), True
    try:
        import numpy as np

        if isinstance(x, np.integer):
            return z3.IntVal(int(x)), False
        if isinstance(x, np.floating):
            return z3.RealVal(str(Fraction(float(x)))), True
    except Exception:
        pass
    return None


def _conc(x):
    """If the proxy's term is already pinned on this path return its value, else None."""
    e = CUR
    if e is None:
        return None
    return e.realized.get(x.t.get_id())


def _mk_bool(t):
    b = _lb(t)
    if b == 0:
        return SymBool(t)
    return b > 0


def _mk_int(t):
    if _core.Z3_get_ast_kind(_CTX, t.ast) == z3.Z3_NUMERAL_AST:
        return t.as_long()
    return SymInt(t)


def _mk_real(t):
    return SymFloat(t)


def _binop_num(a, b, op, rop=False):
    ta = _num_term(a)
    tb = _num_term(b)
    if ta is None or tb is None:
        return NotImplemented
    (x, xr), (y, yr) = ta, tb
    if rop:
        (x, xr), (y, yr) = (y, yr), (x, xr)
    real = xr or yr
    if real:
        if not xr:
            x = z3.ToReal(x)
        if not yr:
            y = z3.ToReal(y)
    return op(x, y, real)


def _cmp(a, b, op):
    r = _binop_num(a, b, lambda x, y, real: op(x, y))
    if r is NotImplemented:
        return r
    return _mk_bool(r)


class SymBool(Sym):
    __slots__ = ()

    def __init__(self, t):
        self.t = t

    __class__ = property(lambda s: bool)

    def __bool__(self):
        return _eng().decide(self.t)

    def __hash__(self):
        return hash(_eng().realize(self.t))

    def __index__(self):
        return int(_eng().realize(self.t))

    __int__ = __index__

    def __float__(self):
        return float(_eng().realize(self.t))

    def __repr__(self):
        return repr(_eng().realize(self.t))

    __str__ = __repr__

    def __format__(self, spec):
        return format(_eng().realize(self.t), spec)

    def __eq__(self, o):
        to = type(o)
        if to is SymBool:
            return _mk_bool(self.t == o.t)
        if to is bool:
            return self if o else _mk_bool(z3.Not(self.t))
        return _cmp(self, o, lambda x, y: x == y)

    def __ne__(self, o):
        r = self.__eq__(o)
        if r is NotImplemented:
            return r
        return sym_not(r)

    def __and__(self, o):
        if type(o) is bool:
            return self if o else False
        if type(o) is SymBool:
            return _mk_bool(z3.And(self.t, o.t))
        return NotImplemented

    __rand__ = __and__

    def __or__(self, o):
        if type(o) is bool:
            return True if o else self
        if type(o) is SymBool:
            return _mk_bool(z3.Or(self.t, o.t))
        return NotImplemented

    __ror__ = __or__

    def __xor__(self, o):
        if type(o) is bool:
            return sym_not(self) if o else self
        if type(o) is SymBool:
            return _mk_bool(z3.Xor(self.t, o.t))
        return NotImplemented

    __rxor__ = __xor__

    def __add__(self, o):
        return _arith(self, o, lambda x, y, real: x + y)

    def __radd__(self, o):
        return _arith(self, o, lambda x, y, real: x + y, True)

    def __sub__(self, o):
        return _arith(self, o, lambda x, y, real: x - y)

    def __rsub__(self, o):
        return _arith(self, o, lambda x, y, real: x - y, True)

    def __mul__(self, o):
        return _arith(self, o, lambda x, y, real: x * y)

    __rmul__ = __mul__

    def __lt__(self, o):
        return _cmp(self, o, lambda x, y: x < y)

    def __le__(self, o):
        return _cmp(self, o, lambda x, y: x <= y)

    def __gt__(self, o):
        return _cmp(self, o, lambda x, y: x > y)

    def __ge__(self, o):
        return _cmp(self, o, lambda x, y: x >= y)


def sym_not(x):
    if type(x) is SymBool:
        return _mk_bool(z3.Not(x.t))
    return not x


def _arith(a, b, op, rop=False):
    r = _binop_num(a, b, lambda x, y, real: (op(x, y, real), real), rop)
    if r is NotImplemented:
        return r
    t, real = r
    return _mk_real(t) if real else _mk_int(t)


def _py_floordiv_int(x, y):
    # z3 integer division: x = y*q + r with 0 <= r < |y|.  Python: floor(x / y).
    q = x / y
    r = x % y
    return z3.If(y > 0, q, z3.If(r == 0, q, q - 1))


def _py_mod_int(x, y):
    r = x % y
    return z3.If(y > 0, r, z3.If(r == 0, r, r + y))


class _Num(Sym):
    __slots__ = ()

    def __eq__(self, o):
        c = _conc(self)
        if c is not None:
            if is_sym(o):
                co = _conc(o)
                if co is not None:
                    return c == co
            else:
                return c == o
        r = _cmp(self, o, lambda x, y: x == y)
        if r is NotImplemented:
            return False if not is_sym(o) else r
        return r

    def __ne__(self, o):
        r = self.__eq__(o)
        if r is NotImplemented:
            return r
        return sym_not(r)

    def __lt__(self, o):
        return _cmp(self, o, lambda x, y: x < y)

    def __le__(self, o):
        return _cmp(self, o, lambda x, y: x <= y)

    def __gt__(self, o):
        return _cmp(self, o, lambda x, y: x > y)

    def __ge__(self, o):
        return _cmp(self, o, lambda x, y: x >= y)

    def __bool__(self):
        c = _conc(self)
        if c is not None:
            return bool(c)
        return _eng().decide(self.t != 0)

    def __hash__(self):
        return hash(_eng().realize(self.t))

    def __add__(self, o):
        return _arith(self, o, lambda x, y, real: x + y)

    def __radd__(self, o):
        return _arith(self, o, lambda x, y, real: x + y, True)

    def __sub__(self, o):
        return _arith(self, o, lambda x, y, real: x - y)

    def __rsub__(self, o):
        return _arith(self, o, lambda x, y, real: x - y, True)

    def __mul__(self, o):
        return _arith(self, o, lambda x, y, real: x * y)

    def __rmul__(self, o):
        return _arith(self, o, lambda x, y, real: x * y, True)

    def __truediv__(self, o):
        r = _binop_num(self, o, lambda x, y, real: (z3.ToReal(x) if not real else x) / (z3.ToReal(y) if not real else y))
        return r if r is NotImplemented else _mk_real(r)

    def __rtruediv__(self, o):
        r = _binop_num(self, o, lambda x, y, real: (z3.ToReal(x) if not real else x) / (z3.ToReal(y) if not real else y), True)
        return r if r is NotImplemented else _mk_real(r)

    def __floordiv__(self, o):
        return _arith(self, o, lambda x, y, real: z3.ToReal(z3.ToInt(x / y)) if real else _py_floordiv_int(x, y))

    def __rfloordiv__(self, o):
        return _arith(self, o, lambda x, y, real: z3.ToReal(z3.ToInt(x / y)) if real else _py_floordiv_int(x, y), True)

    def __mod__(self, o):
        return _arith(self, o, lambda x, y, real: (x - y * z3.ToReal(z3.ToInt(x / y))) if real else _py_mod_int(x, y))

    def __rmod__(self, o):
        return _arith(self, o, lambda x, y, real: (x - y * z3.ToReal(z3.ToInt(x / y))) if real else _py_mod_int(x, y), True)

    def __neg__(self):
        return type(self)(-self.t)

    def __pos__(self):
        return self

    def __abs__(self):
        return type(self)(z3.If(self.t >= 0, self.t, -self.t))

    def __pow__(self, o):
        if type(o) is int and 0 <= o <= 4:
            r = 1
            for _ in range(o):
                r = r * self
            return r
        return pow(self._real(), o)

    def _real(self):
        return _eng().realize(self.t)

    def __repr__(self):
        return repr(self._pyv())

    __str__ = __repr__

    def __format__(self, spec):
        return format(self._pyv(), spec)


class SymInt(_Num):
    __slots__ = ()

    def __init__(self, t):
        self.t = t

    __class__ = property(lambda s: int)

    def _pyv(self):
        return int(_eng().realize(self.t))

    def __index__(self):
        return self._pyv()

    __int__ = __index__
    __hash__ = _Num.__hash__

    def __float__(self):
        return float(self._pyv())

    def __round__(self, n=None):
        return self

    def __trunc__(self):
        return self._pyv()

    def __floor__(self):
        return self._pyv()

    def __ceil__(self):
        return self._pyv()

    def is_integer(self):
        return True

    @property
    def real(self):
        return self

    @property
    def imag(self):
        return 0

    @property
    def numerator(self):
        return self

    @property
    def denominator(self):
        return 1

    def __and__(self, o):
        return self._pyv() & int(o)

    def __or__(self, o):
        return self._pyv() | int(o)


class SymFloat(_Num):
    __slots__ = ()

    def __init__(self, t):
        self.t = t

    __class__ = property(lambda s: float)
    __hash__ = _Num.__hash__

    def _pyv(self):
        return float(_eng().realize(self.t))

    def __float__(self):
        return self._pyv()

    def __int__(self):
        return int(self._pyv())

    def __trunc__(self):
        return int(self._pyv())

    def __floor__(self):
        import math

        return math.floor(self._pyv())

    def __ceil__(self):
        import math

        return math.ceil(self._pyv())

    def is_integer(self):
        return _mk_bool(z3.IsInt(self.t))

    def __round__(self, n=None):
        if n is not None:
            if type(n) is int and n >= 1:
                # values are multiples of 1/2 in all harness domains: rounding to >=1 decimals is identity
                return self
            return round(self._pyv(), n)
        f = z3.ToInt(self.t)
        d = self.t - z3.ToReal(f)
        half = z3.RealVal("1/2")
        return _mk_int(z3.If(d < half, f, z3.If(d > half, f + 1, z3.If(f % 2 == 0, f, f + 1))))

    @property
    def real(self):
        return self

    @property
    def imag(self):
        return 0.0


class SymStr(Sym):
    """A string from the engine's sorted alphabet; the term is its index."""

    __slots__ = ()

    def __init__(self, t):
        self.t = t

    __class__ = property(lambda s: str)

    def _pyv(self):
        e = _eng()
        return e.alphabet[e.realize(self.t)]

    def __hash__(self):
        return hash(self._pyv())

    def __str__(self):
        return self._pyv()

    def __repr__(self):
        return repr(self._pyv())

    def __format__(self, spec):
        return format(self._pyv(), spec)

    def __len__(self):
        e = _eng()
        ls = {len(a) for a in e.alphabet}
        if len(ls) == 1:
            return ls.pop()
        return len(self._pyv())

    def __iter__(self):
        return iter(self._pyv())

    def __getitem__(self, i):
        return self._pyv()[i]

    def __contains__(self, x):
        return x in self._pyv()

    def __add__(self, o):
        return self._pyv() + str(o)

    def __radd__(self, o):
        return str(o) + self._pyv()

    def __mul__(self, o):
        return self._pyv() * o

    def __bool__(self):
        e = _eng()
        if all(e.alphabet):
            return True
        return bool(self._pyv())

    def __getattr__(self, name):
        if name.startswith("__"):
            raise AttributeError(name)
        return getattr(self._pyv(), name)

    def _cmp(self, o, op, sop):
        e = _eng()
        c = e.realized.get(self.t.get_id())
        if type(o) is SymStr:
            co = e.realized.get(o.t.get_id())
            if c is not None and co is not None:
                return sop(e.alphabet[c], e.alphabet[co])
            return _mk_bool(op(self.t, o.t))
        if type(o) is str:
            if c is not None:
                return sop(e.alphabet[c], o)
            i = e.aidx.get(o)
            if i is not None:
                return _mk_bool(op(self.t, z3.IntVal(i)))
            # o is not in the alphabet: compare through its insertion point
            import bisect

            k = bisect.bisect_left(e.alphabet, o)  # alphabet[:k] < o < alphabet[k:]
            lt = self.t < k  # self < o
            if sop is _S_EQ:
                return False
            if sop is _S_NE:
                return True
            if sop in (_S_LT, _S_LE):
                return _mk_bool(lt)
            return _mk_bool(z3.Not(lt))
        return NotImplemented

    def __eq__(self, o):
        r = self._cmp(o, lambda x, y: x == y, _S_EQ)
        return False if r is NotImplemented else r

    def __ne__(self, o):
        r = self._cmp(o, lambda x, y: x != y, _S_NE)
        return True if r is NotImplemented else r

    def __lt__(self, o):
        return self._cmp(o, lambda x, y: x < y, _S_LT)

    def __le__(self, o):
        return self._cmp(o, lambda x, y: x <= y, _S_LE)

    def __gt__(self, o):
        return self._cmp(o, lambda x, y: x > y, _S_GT)

    def __ge__(self, o):
        return self._cmp(o, lambda x, y: x >= y, _S_GE)


def _S_EQ(a, b):
    return a == b


def _S_NE(a, b):
    return a != b


def _S_LT(a, b):
    return a < b


def _S_LE(a, b):
    return a <= b


def _S_GT(a, b):
    return a > b


def _S_GE(a, b):
    return a >= b


# ---------------------------------------------------------------------------------------------- formula helpers
def term_bool(x):
    """bool | SymBool | z3 BoolRef -> True/False or a z3 BoolRef."""
    tx = type(x)
    if tx is bool:
        return x
    if tx is SymBool:
        t = x.t
    elif isinstance(x, z3.BoolRef):
        t = x
    else:
        try:
            import numpy as np

            if isinstance(x, np.bool_):
                return bool(x)
        except Exception:
            pass
        raise TypeError("not a boolean: %r" % (x,))
    b = _lb(t)
    if b == 0:
        return t
    return b > 0


def AND(*xs):
    if len(xs) == 1 and isinstance(xs[0], (list, tuple)) or (len(xs) == 1 and hasattr(xs[0], "__next__")):
        xs = list(xs[0])
    ts = []
    for x in xs:
        c = term_bool(x)
        if c is False:
            return False
        if c is not True:
            ts.append(c)
    if not ts:
        return True
    return ts[0] if len(ts) == 1 else z3.And(ts)


def OR(*xs):
    if len(xs) == 1 and isinstance(xs[0], (list, tuple)) or (len(xs) == 1 and hasattr(xs[0], "__next__")):
        xs = list(xs[0])
    ts = []
    for x in xs:
        c = term_bool(x)
        if c is True:
            return True
        if c is not False:
            ts.append(c)
    if not ts:
        return False
    return ts[0] if len(ts) == 1 else z3.Or(ts)


def NOT(x):
    c = term_bool(x)
    if c is True:
        return False
    if c is False:
        return True
    return z3.Not(c)


def IMPLIES(a, b):
    return OR(NOT(a), b)


def IFF(a, b):
    ca, cb = term_bool(a), term_bool(b)
    if ca is True:
        return cb
    if ca is False:
        return NOT(cb)
    if cb is True:
        return ca
    if cb is False:
        return NOT(ca)
    return ca == cb


def EQ(a, b):
    """Structural equality as a formula (no forking): tuples/lists/dicts recursively, None, numbers, strings,
    proxies."""
    if a is b:
        return True
    if isinstance(a, (tuple, list)) and isinstance(b, (tuple, list)):
        if len(a) != len(b):
            return False
        return AND([EQ(x, y) for x, y in zip(a, b)])
    if isinstance(a, dict) and isinstance(b, dict):
        if set(map(_k, a)) != set(map(_k, b)):
            return False
        return AND([EQ(a[k], b[k]) for k in a])
    if isinstance(a, (set, frozenset)) and isinstance(b, (set, frozenset)):
        return a == b
    sa, sb = is_sym(a), is_sym(b)
    if sa and sb and type(a) is type(b) and a.t.get_id() == b.t.get_id():
        return True  # hash-consed: the very same term
    if not sa and not sb:
        r = a == b
        try:
            return bool(r)
        except Exception:
            return False
    r = a.__eq__(b) if sa else b.__eq__(a)
    if r is NotImplemented:
        return False
    return term_bool(r)


def _k(x):
    return x


def NE(a, b):
    return NOT(EQ(a, b))


def LE(a, b):
    r = a <= b
    return term_bool(r)


def LT(a, b):
    return term_bool(a < b)


def GE(a, b):
    return term_bool(a >= b)


def ITE(c, a, b):
    cc = term_bool(c)
    if cc is True:
        return a
    if cc is False:
        return b
    ta, tb = _num_term(a), _num_term(b)
    if ta is None or tb is None:
        raise TypeError("ITE over non-numbers")
    (x, xr), (y, yr) = ta, tb
    if xr or yr:
        x = x if xr else z3.ToReal(x)
        y = y if yr else z3.ToReal(y)
        return SymFloat(z3.If(cc, x, y))
    return SymInt(z3.If(cc, x, y))


def SUM(xs):
    tot = 0
    for x in xs:
        tot = tot + x
    return tot


def COUNT(bools):
    """number of true formulas as a (symbolic) int"""
    tot = 0
    for b in bools:
        c = term_bool(b)
        if c is True:
            tot = tot + 1
        elif c is not False:
            tot = tot + SymInt(z3.If(c, z3.IntVal(1), z3.IntVal(0)))
    return tot


def concretize(obj, m, eng):
    """Replace proxies inside nested python containers by their value under model m."""
    if is_sym(obj):
        v = m.eval(obj.t, model_completion=True)
        from .engine import pyval

        pv = pyval(v)
        if type(obj) is SymStr:
            return eng.alphabet[pv]
        if type(obj) is SymFloat:
            return float(pv)
        return pv
    if isinstance(obj, z3.BoolRef):
        return z3.is_true(m.eval(obj, model_completion=True))
    if isinstance(obj, tuple):
        return tuple(concretize(x, m, eng) for x in obj)
    if isinstance(obj, list):
        return [concretize(x, m, eng) for x in obj]
    if isinstance(obj, dict):
        return {concretize(k, m, eng): concretize(v, m, eng) for k, v in obj.items()}
    if isinstance(obj, (set, frozenset)):
        return type(obj)(concretize(x, m, eng) for x in obj)
    return obj
