#!/bin/bash
# Idempotent offline set-up: overlay venv on /venv (+ z3-solver, crosshair-tool from the wheelhouse).
set -e
cd "$(dirname "$0")"
V=/verif/.venv
if [ ! -x "$V/bin/python" ] || ! "$V/bin/python" -c "import z3, networkx" >/dev/null 2>&1; then
  rm -rf "$V"
  /venv/bin/python -m venv "$V"
  SP=$("$V/bin/python" -c "import sysconfig; print(sysconfig.get_paths()['purelib'])")
  printf "import site; site.addsitedir('/venv/lib/python3.12/site-packages')\n" > "$SP/_overlay.pth"
  PIP_NO_INDEX=1 "$V/bin/python" -m pip install -q --no-index --find-links /opt/veriftools/wheels z3-solver >/dev/null
  PIP_NO_INDEX=1 "$V/bin/python" -m pip install -q --no-index --find-links /opt/veriftools/wheels crosshair-tool >/dev/null 2>&1 || true
fi
"$V/bin/python" -c "import z3, networkx" 
